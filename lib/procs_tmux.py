"""Interactive drivers: random action histories against the real fzf inside a private tmux server,
observed through --listen (GET state after every step), capture-pane, exit status and stdout."""
import json, os, random, time
from concurrent.futures import ThreadPoolExecutor

import procs
from procs import Session, enc_bytes, enc_strlist

WORDS = ['alpha', 'beta', 'gamma', 'delta', 'foo', 'bar', 'baz', 'foo bar', 'Foo', 'a-b', 'x_y', 'café', '日本', 'one two three',
         'src/main.go', 'README.md', 'a', 'b', 'ab', 'ba', '42', '  lead', 'UPPER lower']

EDIT = ['beginning-of-line', 'end-of-line', 'backward-char', 'forward-char', 'backward-word', 'forward-word', 'delete-char',
        'backward-delete-char', 'unix-line-discard', 'unix-word-rubout', 'backward-kill-word', 'kill-word', 'kill-line', 'yank',
        'clear-query', 'replace-query']
NAV = ['up', 'down', 'up', 'down', 'first', 'last', 'page-up', 'page-down', 'half-page-up', 'half-page-down']
SEL = ['select', 'deselect', 'toggle', 'toggle', 'toggle-up', 'toggle-down', 'toggle-in', 'toggle-out', 'select-all', 'deselect-all',
       'toggle-all', 'clear-selection']
END = ['accept', 'accept', 'accept-non-empty', 'accept-or-print-query', 'abort', 'print-query', 'cancel', 'delete-char/eof',
       'backward-delete-char/eof']
TEXTS = ['a', 'b', 'o', 'fo', 'ba', ' ', 'x', 'A', 'e', 'a b', 'o-', 'é', 'zz', '1']


ANTH = ['1', '2', '-1', '..-2', '2..', '..-3', '1,2', '2..-2', '..', '-2..', '3', '1..2', '..1', '-3..-2', '2,..-2']
_ANTH_K = 0
ANTH_T = ['{1}:{2}', '{2}/{1}', '{n}:{1}', 'x{-1}', '{1}+{3}', '{..2}-{n}', '{1}{2}', '{2..}:{1}']
CSV = ['a,b,c', 'one,two', 'solo', 'k,v,', ',lead', 'x,,y', 'p q,r s', 'é,ü,']
FIELDS = ['one two three', 'alpha beta', 'solo', 'a b c d', 'x  y', ' lead in', 'tail out ', 'k:v w', 'é ü']


def dot(b):
    return '.'.join(str(x) for x in b) if b else 'e'


def gen_action(r):
    k = r.random()
    if k < 0.22:
        return ('put', r.choice(TEXTS))
    if k < 0.27:
        return ('change-query', r.choice(TEXTS + ['', 'alpha', 'foo bar']))
    if k < 0.47:
        return (r.choice(EDIT), None)
    if k < 0.72:
        return (r.choice(NAV), None)
    if k < 0.76:
        return ('pos', str(r.choice([1, 2, 3, -1, -2, 0, 100, -100])))
    if k < 0.95:
        return (r.choice(SEL), None)
    if k < 0.965:
        return ('toggle-sort', None)
    if k < 0.98:
        return (r.choice(['exclude', 'exclude-multi']), None)
    if k < 0.992:
        return (r.choice(['toggle-input', 'hide-input', 'show-input', 'toggle-input']), None)
    return ('print', r.choice(['x', 'hello']))


def enc_action(a):
    name, arg = a
    if arg is None:
        return name
    if name == 'pos':
        return 'pos=' + arg
    return name + '=' + dot(arg.encode())


def fzf_action(a):
    name, arg = a
    if arg is None:
        return name
    return '%s(%s)' % (name, arg)


def tmpl_selection(r, lines):
    # select one line the coming query keeps and one it hides, then act on the current results only
    steps = []
    for c in r.sample(['a', 'b', 'o', 'e', 'f'], 5):
        inside = [i for i, l in enumerate(lines) if c in l.lower()]
        outside = [i for i, l in enumerate(lines) if c not in l.lower()]
        if inside and outside:
            picks = [r.choice(inside), r.choice(outside)]
            if r.random() < 0.5 and len(inside) > 1:
                picks.append(r.choice(inside))
            r.shuffle(picks)
            for i in picks:
                steps.append([('pos', str(i + 1)), (r.choice(['select', 'toggle']), None)])
            steps.append([('change-query', c)])
            break
    else:
        steps = [[(r.choice(['toggle', 'select']), None), (r.choice(['up', 'down']), None)] for _ in range(r.randint(1, 4))]
        steps.append([('change-query', r.choice(['a', 'b', 'o', 'foo', 'e']))])
    steps.append([('toggle-all', None)])     # a listed item and a hidden item are selected at this point
    steps += [[(r.choice(['toggle', 'toggle-down', 'toggle-up', 'up', 'down']), None)] for _ in range(r.randint(0, 2))]
    steps.append([(r.choice(['toggle-all', 'toggle-all', 'select-all', 'deselect-all']), None)])
    steps.append([(r.choice(['clear-query', 'toggle-all', 'up']), None)])
    steps.append([(r.choice(['toggle-all', 'down', 'deselect']), None)])
    return steps


def tmpl_kill_ring(r, lines):
    q = r.choice(['abcdef', 'hello world', 'foo bar baz', 'a-b c_d', 'xy'])
    steps = [[('change-query', q)]]
    steps += [[(r.choice(['backward-char', 'backward-word', 'forward-char']), None)] for _ in range(r.randint(1, 4))]
    steps.append([(r.choice(['kill-line', 'kill-line', 'kill-line', 'unix-line-discard', 'kill-word', 'backward-kill-word', 'unix-word-rubout', 'cancel']), None)])
    steps.append([r.choice([('put', 'XY'), ('put', 'XY'), ('beginning-of-line', None), ('end-of-line', None), ('put', 'q')])])
    steps.append([('yank', None)])
    steps.append([r.choice([('yank', None), ('put', 'Z'), ('backward-delete-char', None)])])
    steps.append([('yank', None)])
    return steps


def tmpl_words_unicode(r, lines):
    # word motions and kills over words made of non-ASCII letters and digits (\\pL\\pN are word characters)
    q = r.choice(['héllo wörld', 'привет мир', 'naïve café x', 'a1é2 b٣c', 'über-straße fähre', '日本語 テスト ok', 'été', 'x émigré'])
    steps = [[('change-query', q)]]
    for _ in range(r.randint(2, 5)):
        steps.append([(r.choice(['backward-word', 'forward-word', 'backward-kill-word', 'kill-word', 'backward-char', 'beginning-of-line', 'end-of-line',
                                 'backward-word', 'backward-kill-word', 'kill-word']), None)])
    steps.append([('yank', None)])
    steps.append([r.choice([('backward-kill-word', None), ('kill-word', None), ('put', 'ö')])])
    return steps


def tmpl_reload(r, lines):
    # selections survive query changes and are dropped on reload (so are exclusions); the query and the cursor stay
    steps = []
    for _ in range(r.randint(1, 3)):
        steps.append([('toggle', None), (r.choice(['up', 'down']), None)])
    if r.random() < 0.5:
        steps.append([('change-query', r.choice(['a', 'o', 'e', 'b']))])
    if r.random() < 0.3:
        steps.append([('exclude', None)])
    steps.append([('reload', None)])
    steps.append([r.choice([('toggle', None), ('down', None), ('up', None), ('select-all', None), ('clear-query', None)])])
    if r.random() < 0.4:
        steps.append([('toggle', None), ('up', None)])
        steps.append([('reload', None)])
    steps.append([(r.choice(['accept', 'accept', 'accept-non-empty']), None)])
    return steps


def tmpl_change_multi(r, lines):
    # change-multi: the limit changes; a selection made under another limit is dropped, under the same limit kept
    steps = [[('select-all', None)]] if r.random() < 0.5 else [[('toggle', None), ('up', None)], [('toggle', None), ('up', None)], [('toggle', None)]]
    steps.append([('change-multi', r.choice(['2', '0', '', '1', '3', '1000', '5']))])
    for _ in range(r.randint(0, 3)):
        steps.append([(r.choice(['toggle', 'toggle', 'select-all', 'toggle-all', 'up', 'down']), None)])
    if r.random() < 0.5:
        steps.append([('change-multi', r.choice(['', '2', '0', '4']))])
        steps.append([(r.choice(['toggle', 'select-all', 'down']), None)])
    steps.append([('accept', None)])
    return steps


def tmpl_accept_nth(r, lines):
    # --accept-nth with ranges whose bounds fall on, before and after the ends of the record
    steps = [[(r.choice(['down', 'up', 'last', 'first']), None)] for _ in range(r.randint(0, 2))]
    for _ in range(r.randint(0, 3)):
        steps.append([('toggle', None), (r.choice(['up', 'down']), None)])
    if _ANTH_K % 3 == 2:
        steps.append([('select-all', None)])        # records of every field count are printed
    steps.append([('accept', None)])
    return steps


def tmpl_track(r, lines):
    # --track: the cursor stays on its item while the list is rebuilt around it (exclusions above and
    # below it, query changes that keep it)
    k = r.randint(3, max(3, min(len(lines), 8)))
    steps = [[('pos', str(k))]]
    # an item before the tracked one is thrown out of the list (a minor revision of the input): the
    # cursor must stay on its item, whose position changes
    steps.append([('first', None), ('toggle', None), ('pos', str(k))])
    steps.append([('exclude-multi', None)])
    for _ in range(r.randint(1, 3)):
        k = r.random()
        if k < 0.5:
            # select something else and throw it out of the list
            steps.append([(r.choice(['up', 'down', 'first']), None), ('toggle', None), (r.choice(['down', 'up', 'last']), None)])
            steps.append([('exclude-multi', None)])
        elif k < 0.75:
            steps.append([('change-query', r.choice(['a', 'o', 'e', 'b', '']))])
        else:
            steps.append([(r.choice(['up', 'down']), None), ('exclude', None)])
    steps.append([(r.choice(['up', 'down', 'toggle-sort']), None)])
    return steps


def tmpl_exclude_keeps(r, lines):
    # items selected far down the list that the coming query hides, a query that leaves few results, then
    # the exclusion of the current result (a minor revision of the input): the selection must survive,
    # whatever the indexes of its items
    n = len(lines)
    steps = []
    for c in r.sample(['a', 'b', 'o', 'e', 'f', 'm'], 6):
        inside = [i for i, l in enumerate(lines) if c in l.lower()]
        hidden = [i for i in range(n) if i not in inside and i >= len(inside)]
        if len(inside) >= 2 and hidden:
            for i in r.sample(hidden, min(len(hidden), r.randint(1, 3))):
                steps.append([('pos', str(i + 1)), (r.choice(['select', 'toggle']), None)])
            steps.append([('change-query', c)])
            break
    else:
        steps.append([('last', None), ('toggle', None)])
        steps.append([('change-query', r.choice(['a', 'o', 'e']))])
    steps.append([(r.choice(['first', 'last', 'down', 'up']), None), ('exclude', None)])
    steps.append([(r.choice(['up', 'down', 'clear-query', 'toggle']), None)])
    if r.random() < 0.5:
        steps.append([(r.choice(['exclude', 'exclude-multi']), None)])
    steps.append([('accept', None)])
    return steps


def tmpl_hidden_input(r, lines):
    # while the input section is hidden nothing changes the query (whatever the action), the kill
    # buffer still fills, and the list has the rows of the input section
    steps = [[('change-query', r.choice(['a', 'ab', 'foo bar', 'o']))], [(r.choice(['backward-char', 'beginning-of-line', 'backward-word']), None)]]
    steps.append([(r.choice(['hide-input', 'toggle-input']), None)])
    for _ in range(r.randint(2, 5)):
        steps.append([r.choice([('put', 'x'), ('change-query', 'zz'), ('clear-query', None), ('kill-line', None), ('unix-line-discard', None),
                                ('backward-delete-char', None), ('yank', None), ('page-down', None), ('last', None), ('page-up', None), ('down', None),
                                ('replace-query', None), ('backward-kill-word', None)])])
    if r.random() < 0.5:
        steps.append([('show-input', None), ('put', 'q'), ('hide-input', None), ('put', 'r')])
    steps.append([(r.choice(['show-input', 'toggle-input']), None)])
    steps.append([r.choice([('yank', None), ('put', 'y'), ('backward-delete-char', None)])])
    steps.append([(r.choice(['page-down', 'last', 'up']), None)])
    return steps


def tmpl_kill_line(r, lines):
    # kill-line with the cursor inside the query, then edits at the cut point, then yank: the kill buffer
    # must not share memory with the query
    if r.random() < 0.5:
        steps = [[('change-query', r.choice(['abcdef', 'hello world', 'foo bar baz']))]]
        steps += [[('backward-char', None)] for _ in range(r.randint(2, 4))]
        steps += [[('kill-line', None)], [('put', r.choice(['XY', 'q', 'XYZ']))], [('yank', None)]]
    else:
        steps = [[('change-query', r.choice(['hello world', 'one two three', 'a-b c_d']))], [('backward-word', None)], [('kill-line', None)],
                 [('beginning-of-line', None)], [('yank', None)], [('yank', None)]]
    steps.append([r.choice([('yank', None), ('end-of-line', None), ('put', 'z')])])
    return steps


def tmpl_empty_accept(r, lines):
    # nothing matches, nothing is selected: accept-or-print-query prints the query with status 0,
    # accept / accept-non-empty behave as documented on an empty list
    steps = [[(r.choice(['toggle', 'down', 'up']), None)] for _ in range(r.randint(0, 2))]
    steps.append([('deselect-all', None)] if r.random() < 0.5 else [('clear-selection', None)])
    steps.append([('change-query', r.choice(['zzqqzz', 'qqqqx', '!!nothing~']))])
    steps.append([(r.choice(['accept-or-print-query', 'accept-or-print-query', 'accept-or-print-query', 'accept', 'accept-non-empty']), None)])
    return steps


def tmpl_pick_then_all(r, lines):
    # items picked by hand in an order different from list order, then select-all, then accept:
    # the hand-picked ones come first, in pick order
    n = len(lines)
    picks = r.sample(range(n), min(n, r.randint(2, 3)))
    if picks == sorted(picks):
        picks.reverse()
    steps = [[('pos', str(i + 1)), (r.choice(['select', 'toggle']), None)] for i in picks]
    steps.append([(r.choice(['select-all', 'select-all', 'toggle-all']), None)])
    if r.random() < 0.3:
        steps.append([('select-all', None)])
    steps.append([('accept', None)])
    return steps


def tmpl_burst(r, lines):
    # several selections inside one action list: selection order must still be the order of the toggles
    acts = []
    for _ in range(r.randint(2, 5)):
        acts.append((r.choice(['toggle', 'toggle', 'select']), None))
        acts.append((r.choice(['up', 'down', 'up', 'first', 'last']), None))
    return [[(r.choice(['up', 'down', 'last']), None)], acts, [('accept', None)]]


def gen_session(r, tier, force=None):
    n = r.choice([0, 1, 2, 3, 5, 8, 12, 20, 40])
    lines = [r.choice(WORDS) + (r.choice(['', ' ', '/']) + r.choice(WORDS) if r.random() < 0.4 else '') for _ in range(n)]
    opts = dict(multi=r.choice([0, 0, 1, 2, 3, 1000]), cycle=int(r.random() < 0.35), layout=r.choice(['default', 'default', 'reverse', 'reverse-list']),
                rows=r.choice([5, 6, 8, 12, 24]), cols=r.choice([40, 60, 80]), tac=int(r.random() < 0.2), nosort=int(r.random() < 0.15),
                printq=int(r.random() < 0.25), exact=int(r.random() < 0.15), track=int(r.random() < 0.2), noinput=int(r.random() < 0.08))
    opts['anth'] = r.choice(ANTH) if r.random() < 0.2 else '_'
    opts['print0'] = int(r.random() < 0.15)
    opts['expect'] = r.choice(['ctrl-x', 'ctrl-x,f2', 'alt-m,ctrl-x']) if r.random() < 0.2 else '_'
    nsteps = r.randint(3, 30 if tier == 'quick' else 120)
    steps = []
    for _ in range(nsteps):
        k = 1 if r.random() < 0.8 else r.randint(2, 3)
        steps.append([gen_action(r) for _ in range(k)])
    k = r.random()
    if k < 0.5 or force:
        tmpl = r.choice([tmpl_selection, tmpl_selection, tmpl_kill_ring, tmpl_kill_ring, tmpl_burst, tmpl_track, tmpl_track, tmpl_exclude_keeps, tmpl_exclude_keeps, tmpl_hidden_input])
        if force:
            tmpl = force
        if tmpl is tmpl_accept_nth:
            global _ANTH_K
            _ANTH_K += 1
            # in turn: a template with the delimiter given after it, a range over AWK fields, anything
            edge = ['..-2', '..-3', '2..-2', '-3..-2', '..-4', '2..-4']   # an end exactly one before the first field for some record
            opts['anth'] = (r.choice(ANTH_T[:3] + ANTH_T[4:]) if _ANTH_K % 3 == 1 else edge[(_ANTH_K // 3) % len(edge)] if _ANTH_K % 3 == 2
                            else r.choice(ANTH + ANTH_T))
            if _ANTH_K % 3 == 1 or (_ANTH_K % 3 == 0 and r.random() < 0.5):
                # a literal delimiter, given after --accept-nth on the command line as often as before it
                opts['dl'], opts['dlfirst'] = '44', int(_ANTH_K % 3 != 1 and r.random() < 0.4)
                lines = ['a,b,c'] + [r.choice(CSV) for _ in range(r.randint(1, 5))]
            elif _ANTH_K % 3 == 2:
                lines = ['solo', 'alpha beta', 'one two three', 'a b c d']      # every field count; all of them get printed
                opts['multi'] = 1000
            else:
                lines = [r.choice(FIELDS) for _ in range(r.randint(1, 6))]
            opts['noinput'], opts['tac'] = 0, 0
        if tmpl is tmpl_words_unicode:
            opts['noinput'] = 0
        if tmpl is tmpl_reload:
            opts['noinput'], opts['track'], opts['tac'] = 0, 0, 0
            if len(lines) < 4:
                lines += [r.choice(WORDS) for _ in range(5)]
        if tmpl is tmpl_track:
            opts['track'] = 1
            if len(lines) < 5:
                lines += [r.choice(WORDS) for _ in range(6)]
        if tmpl in (tmpl_kill_ring, tmpl_hidden_input, tmpl_kill_line, tmpl_empty_accept):
            opts['noinput'] = 0
        if tmpl is tmpl_pick_then_all:
            opts['multi'], opts['tac'], opts['noinput'] = 1000, 0, 0
            if len(lines) < 4:
                lines += [r.choice(WORDS) for _ in range(5)]
        if tmpl not in (tmpl_kill_ring, tmpl_hidden_input, tmpl_kill_line, tmpl_words_unicode) and opts['multi'] == 0:
            opts['multi'] = r.choice([2, 3, 1000])
        if tmpl is tmpl_exclude_keeps:
            opts['tac'] = 0
            if len(lines) < 8:
                lines += [r.choice(WORDS) for _ in range(8)]
            if opts['multi'] < 3:
                opts['multi'] = r.choice([3, 1000])
        if tmpl is tmpl_selection:
            opts['tac'], opts['nosort'] = 0, 0
            if opts['multi'] < 3:
                opts['multi'] = r.choice([3, 1000])
        if tmpl is tmpl_change_multi:
            opts['noinput'], opts['tac'] = 0, 0
            if len(lines) < 4:
                lines += [r.choice(WORDS) for _ in range(5)]
        if tmpl in (tmpl_exclude_keeps, tmpl_selection, tmpl_pick_then_all, tmpl_kill_line, tmpl_empty_accept, tmpl_accept_nth, tmpl_reload, tmpl_change_multi):
            # these templates pick items by their position in the unfiltered list
            opts['noinput'] = 0
            steps = tmpl(r, lines) + steps[:r.randint(0, 3)]
        else:
            steps = steps[:r.randint(0, 4)] + tmpl(r, lines) + steps[:r.randint(0, 3)]
    if opts.get('track'):
        # with --tac the tracked item is the one first seen while the input was still loading: loading
        # dynamics are outside the session model
        opts['tac'] = 0
    if not (steps and steps[-1] and steps[-1][0][0] in END):
        steps.append([(r.choice(END), None)])
    if opts['expect'] != '_' and r.random() < 0.6:
        # end the session by pressing one of the --expect keys (a real key press, not a posted action)
        steps[-1] = [('xkey', r.choice(opts['expect'].split(',')))]
    return dict(opts=opts, lines=lines, steps=steps)


def session_args(o):
    a = ['--no-multi-line', '--no-color', '--no-scrollbar', '--info=default']
    if o['multi'] == 1000:
        a.append('--multi')
    elif o['multi'] > 0:
        a.append('--multi=%d' % o['multi'])
    if o['cycle']:
        a.append('--cycle')
    a.append('--layout=' + o['layout'])
    if o['tac']:
        a.append('--tac')
    if o['nosort']:
        a.append('--no-sort')
    if o['printq']:
        a.append('--print-query')
    if o.get('print0'):
        a.append('--print0')
    if o['exact']:
        a.append('--exact')
    if o.get('track'):
        a.append('--track')
    if o.get('noinput'):
        a.append('--no-input')
    dl = ['--delimiter=' + bytes(int(x) for x in str(o['dl']).split('.')).decode()] if str(o.get('dl', '_')) != '_' else []
    if o.get('dlfirst'):
        a += dl
    if o.get('anth', '_') != '_':
        a.append('--accept-nth=' + o['anth'])
    if not o.get('dlfirst'):
        a += dl
    if o.get('expect', '_') != '_':
        a.append('--expect=' + o['expect'])
    return a


def obs_of(st):
    cur = st['current']['index'] if st.get('current') else 'n'
    sel = dot([x['index'] for x in st.get('selected', [])])
    return '%s~%d~%s~%d~%s' % (dot(st['query'].encode()), st['position'], cur, st['matchCount'], sel)


def run_session(fzf, tmp, sc, keep_screens=False):
    o = sc['opts']
    lines = [l.encode() for l in sc['lines']]
    s = Session(fzf, session_args(o), lines, tmp, width=o['cols'], height=o['rows'])
    obs, screens, done_steps = [], [], []
    rc, out, hung = None, b'', False
    try:
        st = s.wait_ready()
        if st is None:
            return None, 'did not start: ' + s.stderr().decode('utf-8', 'replace')[-300:]
        s.settle(want=lambda c: c['totalCount'] == len(lines))
        for step in sc['steps']:
            if step[0][0] == 'xkey':
                s.send_keys({'ctrl-x': 'C-x', 'f2': 'F2', 'alt-m': 'M-m'}[step[0][1]])
                done_steps.append(step)
                obs.append(None)
                break
            has_reload = any(a[0] == 'reload' for a in step)
            if not s.post('+'.join("reload(cat '%s')" % s.inp if a[0] == 'reload' else fzf_action(a) for a in step)):
                hung = not os.path.exists(s.rc)
                if hung:
                    break
            done_steps.append(step)
            if has_reload:
                # the new stream is read by a new process: wait until it has been taken in completely
                time.sleep(0.3)
                st = s.settle(tries=200, want=lambda c: not c.get('reading') and c['totalCount'] == len(lines))
            else:
                st = s.settle()
            if st is None:
                # the session ended (accept / abort / …)
                obs.append(None)
                break
            obs.append(obs_of(st))
            if keep_screens:
                screens.append(s.capture())
        rc = s.wait_exit(6.0)
        if rc is None:
            # still running after the final action (e.g. accept-non-empty refused): end it
            done_steps.append([('abort', None)])
            s.post('abort')
            rc = s.wait_exit(6.0)
            if rc is None:
                hung = True
        out = s.stdout()
        err = s.stderr()
    finally:
        s.close()
    # observations of steps after which the process was gone are what the model predicts once an outcome is set:
    # report them as the last live observation
    last = None
    fixed = []
    for x in obs:
        if x is not None:
            last = x
        fixed.append(x)
    optS = ';'.join('%s=%s' % (k, v) for k, v in sorted(o.items()))
    steps_enc = ';'.join('+'.join(enc_action(a) for a in step) for step in done_steps) or '_'
    lhs = 'term sess %s %s %s' % (optS, enc_strlist(lines), steps_enc)
    if hung or rc is None or b'panic' in err or b'goroutine ' in err:
        return lhs + ' => hung-or-crashed', None
    return lhs + ' => %s %d %s' % ('/'.join(x for x in fixed if x is not None) or '_', rc, enc_bytes(out)), dict(screens=screens)


def drv_sessions(tier, seed, ctx):
    from vcheck import evaluate
    n = 40 if tier == 'quick' else 600
    r = random.Random(seed * 104729 + 7)
    # every directed template is used by at least three sessions of any run
    tm = [tmpl_selection, tmpl_kill_ring, tmpl_burst, tmpl_track, tmpl_exclude_keeps, tmpl_hidden_input, tmpl_kill_line, tmpl_empty_accept,
          tmpl_pick_then_all, tmpl_words_unicode, tmpl_accept_nth, tmpl_accept_nth, tmpl_reload, tmpl_change_multi]
    scs = [gen_session(r, tier, force=tm[i % len(tm)] if i < 3 * len(tm) else None) for i in range(max(n, 3 * len(tm) + 16))]
    notes = []

    def work(sc):
        try:
            return run_session(ctx['fzf'], ctx['tmp'], sc)
        except Exception as e:  # infrastructure trouble (tmux, sockets): not a verdict
            return None, 'driver error: %r' % (e,)
    with ThreadPoolExecutor(max_workers=8) as ex:
        outs = list(ex.map(work, scs))
    lines = []
    for (line, info), sc in zip(outs, scs):
        if line is None:
            notes.append(str(info))
        else:
            lines.append(line)
    rs = evaluate(ctx['driver'], lines)
    # A verdict that depends on the terminal emulator, sockets and timing is only believed if the
    # same session gives it again: re-run every session that did not pass, twice.
    keep = []
    flaky = 0
    for res in rs:
        if res['eq'] and res['spec'] != 'FAIL':
            keep.append(res)
            continue
        again = []
        for _ in range(2):
            try:
                rr = replay(dict(case=res['case']), ctx)
            except Exception:
                rr = []
            again.append(rr[0] if rr else None)
        same = [a for a in again if a is not None and (not a['eq'] or a['spec'] == 'FAIL')]
        if len(same) == 2:
            keep.append(res)
        else:
            flaky += 1
            ok = next((a for a in again if a is not None and a['eq'] and a['spec'] != 'FAIL'), None)
            if ok:
                keep.append(ok)
    rs = keep
    if flaky:
        notes.append('%d session(s) gave a verdict that did not repeat when re-run (terminal/timing flake); the re-run is reported' % flaky)
    for res in rs:
        res['proc'] = dict(kind='tmux-session')
    if notes and notes[0].startswith('driver error'):
        notes = ['%d sessions could not be driven: %s' % (len(notes), notes[0])]
    return rs, notes


procs.DRIVERS['sessions'] = drv_sessions


def replay(rp, ctx):
    from vcheck import evaluate
    # re-run the recorded session: options, lines and steps are in the case line
    lhs = rp['case'].split(' => ')[0]
    toks = lhs.split(' ')
    opts = dict(kv.split('=') for kv in toks[2].split(';'))
    for k in opts:
        if k not in ('layout', 'anth', 'expect', 'dl'):
            opts[k] = int(opts[k])
    dec = lambda s: bytes(int(x) for x in s.split(',')).decode('utf-8', 'replace') if s != '-' else ''
    lines = [] if toks[3] == '_' else [dec(x) for x in toks[3].split('|')]
    steps = []
    if toks[4] != '_':
        for st in toks[4].split(';'):
            acts = []
            for a in st.split('+'):
                if '=' in a:
                    name, arg = a.split('=', 1)
                    if name == 'pos':
                        acts.append((name, arg))
                    else:
                        acts.append((name, bytes(int(x) for x in arg.split('.')).decode('utf-8', 'replace') if arg != 'e' else ''))
                else:
                    acts.append((a, None))
            steps.append(acts)
    line, _ = run_session(ctx['fzf'], ctx['tmp'], dict(opts=opts, lines=lines, steps=steps))
    return evaluate(ctx['driver'], [line]) if line else []
