"""C15 driver: random action histories against the real fzf inside a private tmux server; after
every step the state reported by --listen (GET /) and the screen of the terminal emulator
(capture-pane) are recorded. The Lean driver replays the history on the model, renders the model
state from scratch and compares the screens; the specification is judged on the real screen
against the state fzf itself reports."""
import json, os, random, time
from concurrent.futures import ThreadPoolExecutor

import procs
from procs import Session, enc_bytes, enc_strlist
from procs_tmux import dot, enc_action, fzf_action, obs_of, EDIT, NAV, SEL, TEXTS

WORDS = ['alpha', 'beta', 'gamma', 'delta', 'foo', 'bar', 'baz', 'foo bar', 'Foo', 'a-b', 'x_y', 'one two three',
         'src/main.go', 'README.md', 'a', 'b', 'ab', 'ba', '42', 'UPPER lower', 'the quick brown fox jumps over the lazy dog',
         'lorem ipsum dolor sit amet consectetur adipiscing elit sed do eiusmod tempor', 'path/to/some/deeply/nested/file_name.txt']
LONG_PARTS = ['ab', 'ba', 'foo', 'bar', 'xyz', '-', '_', '/', ' ', 'x' * 30, 'y' * 45, 'lorem ipsum ', 'z' * 70, 'q' * 17]
HEADERS = ['HEADER', 'HA', 'second header line', 'a header that is definitely much wider than most of the items listed below it ' * 2]


def long_line(r):
    return ''.join(r.choice(LONG_PARTS) for _ in range(r.randint(3, 9))).strip() or 'x'


def gen_action(r):
    k = r.random()
    if k < 0.22:
        return ('put', r.choice(TEXTS))
    if k < 0.30:
        return ('change-query', r.choice(TEXTS + ['', 'alpha', 'foo bar', 'ab', 'ba', 'xyz', 'foo', 'oof']))
    if k < 0.42:
        return (r.choice(EDIT), None)
    if k < 0.72:
        return (r.choice(NAV), None)
    if k < 0.76:
        return ('pos', str(r.choice([1, 2, 3, -1, -2, 0, 100, -100])))
    return (r.choice(SEL), None)


def gen_session(r, tier, force=None):
    kind = r.random()
    n = r.choice([0, 1, 2, 3, 5, 8, 12, 20, 40])
    lines = []
    for _ in range(n):
        if r.random() < 0.3:
            lines.append(long_line(r))
        else:
            lines.append(r.choice(WORDS) + (r.choice([' ', '/']) + r.choice(WORDS) if r.random() < 0.4 else ''))
    if lines and r.random() < 0.4:
        # lines exactly as wide as the text area, one less, one more
        for _ in range(r.randint(1, 3)):
            w = r.choice([24, 30, 40, 60, 80]) - r.choice([2, 3, 4]) - 1 + r.choice([-1, 0, 0, 1])
            lines[r.randrange(len(lines))] = (r.choice(['ab', 'foo ', 'x']) * 80)[:max(1, w)]
    hl = r.choice([0, 0, 0, 1, 2])
    header = [r.choice(HEADERS) for _ in range(r.choice([0, 0, 1, 2]))]
    opts = dict(multi=r.choice([0, 1, 2, 3, 1000, 1000]), cycle=int(r.random() < 0.3),
                layout=r.choice(['default', 'default', 'reverse', 'reverse-list']),
                rows=r.choice([8, 10, 12, 16, 24]), cols=r.choice([24, 30, 40, 60, 80]),
                info=r.choice(['default', 'default', 'inline', 'hidden', 'inline-right', 'right']), sep=int(r.random() < 0.75),
                hscroll=int(r.random() < 0.8), keepright=int(r.random() < 0.2), hoff=r.choice([10, 10, 0, 3, 25]),
                exact=int(r.random() < 0.15), hlines=hl, header=header,
                pointer=r.choice(['', '', '>', '=>']), marker=r.choice(['', '', '*', '+']),
                ellipsis=r.choice(['', '', '..', '~', '...']), prompt=r.choice(['', '', 'Q: ', '$ ']), hfirst=int(r.random() < 0.2))
    if lines and (force == 'fit' or r.random() < 0.35):
        # lines exactly as wide as the text area of THIS window (window - pointer - marker - 1), one less, one more
        tw = opts['cols'] - len(opts['pointer'] or '▌') - len(opts['marker'] or '┃') - 1
        for dw in r.sample([0, 0, -1, 1], r.randint(1, 3)):
            lines[r.randrange(len(lines))] = (r.choice(['ab', 'foo ', 'x', 'fit-']) * 90)[:max(1, tw + dw)].rstrip(' ') .ljust(max(1, tw + dw), 'z')
        if r.random() < 0.3 and not opts['header']:
            opts['header'] = [('H' * 90)[:tw]]
    nsteps = r.randint(3, 14 if tier == 'quick' else 60)
    steps = []
    for _ in range(nsteps):
        x = r.random()
        if x < 0.12:
            steps.append([(r.choice(['toggle-header', 'hide-header', 'show-header', 'toggle-hscroll', 'clear-screen', 'toggle-input', 'hide-input',
                                     'show-input', 'toggle-input']), None)])
        elif x < 0.16:
            steps.append([('change-header', r.choice(HEADERS + ['one\ntwo', 'x']))])
        elif x < 0.19:
            steps.append([('change-prompt', r.choice(['> ', 'P> ', '? ']))])
        else:
            k = 1 if r.random() < 0.8 else r.randint(2, 3)
            steps.append([gen_action(r) for _ in range(k)])
    # toggle-hscroll repaints the list only: a truncated header keeps its old shape until the header is
    # painted again (either shape is a truncation of the header line), so it is not toggled then
    widest = max([len(h) for h in header] + [len(l) for l in lines[:hl]] + [0] +
                 [max(len(x) for x in st[0][1].split('\n')) for st in steps if st[0][0] == 'change-header'])
    if widest > opts['cols'] - 6:
        steps = [[('clear-screen', None)] if st[0][0] == 'toggle-hscroll' else st for st in steps]
    if kind < 0.25:
        # the same results under a different query of the same length: rows must follow the query.
        # More than one chunk of items so that the long lines live in chunks that are never copied.
        special = []
        a, b = r.choice([('ab', 'ba'), ('foo', 'oof'), ('xy', 'yx')])
        for _ in range(r.randint(1, 3)):
            special.append(a + r.choice(['-', '_', ' ']) + r.choice(['x', 'q', 'lorem ']) * r.randint(40, 110) + ' ' + b)
        filler = ['zzz%d' % i for i in range(r.choice([0, 3, 110, 150]))]
        lines = special + filler if r.random() < 0.7 else filler[:50] + special + filler[50:]
        opts['exact'] = 0
        qs = r.choice([[a, b], [b, a], [a, b, a], [a[0], b[0]], [a, 'zz', b], ['ab', 'xy']])
        opts['hlines'] = 0
        steps = steps[:r.randint(0, 3)] + [[('change-query', q)] for q in qs] + steps[:r.randint(0, 2)]
    if force == 'input' or (force is None and r.random() < 0.08):
        # the input section is hidden and shown again: every row that held the prompt, the info line, a
        # header or a list row before must show what the new layout puts there (short lists leave rows that
        # were remembered as empty)
        if r.random() < 0.6:
            lines = lines[:r.choice([1, 2, 3, 5])] or ['alpha', 'beta', 'gamma']
        if r.random() < 0.5:
            opts['header'], opts['hlines'] = [], 0
        if r.random() < 0.6:
            opts['layout'] = 'reverse-list'
        mid = [[(r.choice(['hide-input', 'toggle-input']), None)]]
        for _ in range(r.randint(1, 3)):
            mid.append([(r.choice(['down', 'up', 'toggle', 'last', 'first', 'put', 'change-query']), None)])
        mid = [[('put', 'a')] if st[0][0] == 'put' else [('change-query', 'b')] if st[0][0] == 'change-query' else st for st in mid]
        mid.append([(r.choice(['show-input', 'toggle-input']), None)])
        mid.append([(r.choice(['down', 'up', 'put']), None)] if r.random() < 0.5 else [('put', 'e')])
        mid = [[('put', 'o')] if st[0] == ('put', None) else st for st in mid]
        steps = steps[:r.randint(0, 3)] + mid + steps[:r.randint(0, 2)]
    if force == 'half' or (force is None and r.random() < 0.05):
        # exactly half of the matched lines selected, then toggle-all: the selection changes, its size does not
        k = r.choice([1, 2, 2, 3])
        lines = r.sample(['alpha', 'bravo', 'charlie', 'delta', 'echo', 'foxtrot', 'golf', 'hotel'], 2 * k)
        opts['multi'], opts['hlines'] = 1000, 0
        opts['rows'] = max(opts['rows'], 12)
        pick = []
        for i in range(k):
            pick.append([('toggle', None), (r.choice(['up', 'up', 'down']) if i < k - 1 else 'first', None)])
        # picks may land twice on the same line: select-all + deselect some is the robust way to reach exactly k
        pick = [[('deselect-all', None)]] + [[('pos', str(i + 1)), ('select', None)] for i in r.sample(range(2 * k), k)]
        steps = steps[:r.randint(0, 2)] + [[('clear-query', None)]] + pick + [[('toggle-all', None)]] + ([[('toggle-all', None)]] if r.random() < 0.4 else [])
    if force == 'hdr' or (force is None and r.random() < 0.05):
        # --header-lines=N reserves N rows whatever the input holds; with --header-first they sit next to the edge
        opts['hlines'] = r.choice([1, 2, 3])
        opts['hfirst'] = r.choice([1, 1, 0])
        k = r.choice([0, 1, opts['hlines'] - 1, opts['hlines'], opts['hlines'] + 2])
        lines = (lines + ['alpha', 'beta', 'gamma', 'delta', 'eps'])[:max(0, k)]
        steps = [st for st in steps if st[0][0] not in ('toggle-hscroll',)]
    if force == 'prompt' or (force is None and r.random() < 0.08):
        # actions that repaint the prompt row only (cursor motion in the query, change-prompt): whatever else the
        # info style puts on that row must still be there afterwards
        opts['info'] = r.choice(['inline-right', 'inline-right', 'inline', 'right', 'default'])
        if force == 'prompt':
            opts['sep'] = r.choice([1, 1, 0])
        lines = lines[:12] or ['apple', 'banana', 'cherry']
        mid = [[('put', r.choice(['a', 'e', 'an']))]]
        for _ in range(r.randint(1, 4)):
            mid.append(r.choice([[('backward-char', None)], [('forward-char', None)], [('beginning-of-line', None)], [('end-of-line', None)],
                                 [('backward-word', None)], [('forward-word', None)], [('change-prompt', r.choice(['> ', 'P> ', '? ']))]]))
        steps = steps[:r.randint(0, 2)] + mid + [st for st in steps[:r.randint(0, 2)]]
    return dict(opts=opts, lines=lines, steps=steps)


def session_args(o):
    a = ['--no-multi-line', '--no-color', '--no-scrollbar', '--info=' + o['info']]
    if o['multi'] == 1000:
        a.append('--multi')
    elif o['multi'] > 0:
        a.append('--multi=%d' % o['multi'])
    if o['cycle']:
        a.append('--cycle')
    a.append('--layout=' + o['layout'])
    if not o['sep']:
        a.append('--no-separator')
    if not o['hscroll']:
        a.append('--no-hscroll')
    if o['keepright']:
        a.append('--keep-right')
    a.append('--hscroll-off=%d' % o['hoff'])
    if o['exact']:
        a.append('--exact')
    if o['hlines']:
        a.append('--header-lines=%d' % o['hlines'])
    if o['header']:
        a.append('--header=' + '\n'.join(o['header']))
    if o['pointer']:
        a.append('--pointer=' + o['pointer'])
    if o['marker']:
        a.append('--marker=' + o['marker'])
    if o['ellipsis']:
        a.append('--ellipsis=' + o['ellipsis'])
    if o['prompt']:
        a.append('--prompt=' + o['prompt'])
    if o.get('hfirst'):
        a.append('--header-first')
    return a


def enc_screen(rows, height):
    rows = (rows + [''] * height)[:height]
    return ';'.join('.'.join(str(ord(c)) for c in row.rstrip(' ')) or 'e' for row in rows)


def enc_opts(o):
    d = dict(o)
    d['header'] = ':'.join(dot(h.encode()) for h in o['header']) or '_'
    for k, dflt in (('pointer', '▌'), ('marker', '┃'), ('ellipsis', '··'), ('prompt', '> ')):
        d[k] = dot((o[k] or dflt).encode())
    d['fixed'] = 2
    return ';'.join('%s=%s' % (k, v) for k, v in sorted(d.items()))


def enc_step(step):
    name, arg = step[0]
    if name == 'change-header':
        return 'change-header=' + ':'.join(dot(x.encode()) for x in arg.split('\n'))
    if name == 'change-prompt':
        return 'change-prompt=' + dot(arg.encode())
    return '+'.join(enc_action(a) for a in step)


def stable_capture(s, tries=12, delay=0.02):
    prev = s.capture()
    for _ in range(tries):
        time.sleep(delay)
        cur = s.capture()
        if cur == prev:
            return cur
        prev = cur
    return prev


def run_session(fzf, tmp, sc):
    o = sc['opts']
    lines = [l.encode() for l in sc['lines']]
    s = Session(fzf, session_args(o), lines, tmp, width=o['cols'], height=o['rows'])
    entries, done = [], []
    hung = False
    try:
        st = s.wait_ready()
        if st is None:
            return None, 'did not start: ' + s.stderr().decode('utf-8', 'replace')[-300:]
        st = s.settle(want=lambda c: c['totalCount'] == max(0, len(lines) - o['hlines']))
        entries.append(obs_of(st) + '@' + enc_screen(stable_capture(s), o['rows']))
        for step in sc['steps']:
            if not s.post('+'.join(fzf_action(a) for a in step)):
                hung = not os.path.exists(s.rc)
                break
            done.append(step)
            st = s.settle()
            if st is None:
                break
            entries.append(obs_of(st) + '@' + enc_screen(stable_capture(s), o['rows']))
        alive = not os.path.exists(s.rc)
        if alive and st is not None:
            # model-free oracle: a forced full redraw of the same state must not change the screen
            if s.post('clear-screen'):
                st2 = s.settle()
                if st2 is not None:
                    entries.append('redraw@' + enc_screen(stable_capture(s), o['rows']))
        alive = not os.path.exists(s.rc)
        if alive:
            s.post('abort')
            if s.wait_exit(6.0) is None:
                hung = True
        err = s.stderr()
    finally:
        s.close()
    lhs = 'term rend %s %s %s' % (enc_opts(o), enc_strlist(lines), ';'.join(enc_step(st) for st in done) or '_')
    if hung or b'panic' in err or b'goroutine ' in err:
        return lhs + ' => hung-or-crashed', None
    return lhs + ' => ' + '/'.join(entries), None


def drv_screens(tier, seed, ctx):
    from vcheck import evaluate
    n = 48 if tier == 'quick' else 700
    r = random.Random(seed * 15485863 + 3)
    scs = [gen_session(r, tier, force='input' if i < 6 else 'fit' if i < 12 else 'prompt' if i < 18 else 'hdr' if i < 23 else 'half' if i < 28 else None) for i in range(n)]
    notes = []

    def work(sc):
        try:
            return run_session(ctx['fzf'], ctx['tmp'], sc)
        except Exception as e:
            return None, 'driver error: %r' % (e,)
    with ThreadPoolExecutor(max_workers=8) as ex:
        outs = list(ex.map(work, scs))
    lines = []
    for line, info in outs:
        if line is None:
            notes.append(str(info))
        else:
            lines.append(line)
    rs = evaluate(ctx['driver'], lines)
    keep, flaky = [], 0
    for res in rs:
        if res['eq'] and res['spec'] != 'FAIL':
            keep.append(res)
            continue
        again = []
        for _ in range(2):
            try:
                rr = replay(dict(case=res['case']), ctx)
            except Exception:
                rr = []
            again.append(rr[0] if rr else None)
        same = [a for a in again if a is not None and (not a['eq'] or a['spec'] == 'FAIL')]
        if len(same) == 2:
            keep.append(res)
        else:
            flaky += 1
            ok = next((a for a in again if a is not None and a['eq'] and a['spec'] != 'FAIL'), None)
            if ok:
                keep.append(ok)
    if flaky:
        notes.append('%d session(s) gave a verdict that did not repeat when re-run (terminal/timing flake); the re-run is reported' % flaky)
    for res in keep:
        res['proc'] = dict(kind='tmux-screen')
    if notes and notes[0].startswith('driver error'):
        notes = ['%d sessions could not be driven: %s' % (len(notes), notes[0])]
    return keep, notes


procs.DRIVERS['screens'] = drv_screens


def dec(s):
    return bytes(int(x) for x in s.split('.')).decode('utf-8', 'replace') if s not in ('e', '') else ''


def replay(rp, ctx):
    from vcheck import evaluate
    lhs = rp['case'].split(' => ')[0]
    toks = lhs.split(' ')
    raw = dict(kv.split('=', 1) for kv in toks[2].split(';'))
    o = {}
    for k, v in raw.items():
        if k in ('layout', 'info'):
            o[k] = v
        elif k == 'header':
            o[k] = [] if v == '_' else [dec(x) for x in v.split(':')]
        elif k in ('pointer', 'marker', 'ellipsis', 'prompt'):
            o[k] = dec(v)
        elif k == 'fixed':
            continue
        else:
            o[k] = int(v)
    decb = lambda s: bytes(int(x) for x in s.split(',')).decode('utf-8', 'replace') if s != '-' else ''
    lines = [] if toks[3] == '_' else [decb(x) for x in toks[3].split('|')]
    steps = []
    if toks[4] != '_':
        for st in toks[4].split(';'):
            if st.startswith('change-header='):
                steps.append([('change-header', '\n'.join(dec(x) for x in st[len('change-header='):].split(':')))])
                continue
            if st.startswith('change-prompt='):
                steps.append([('change-prompt', dec(st[len('change-prompt='):]))])
                continue
            acts = []
            for a in st.split('+'):
                if '=' in a:
                    name, arg = a.split('=', 1)
                    acts.append((name, arg) if name == 'pos' else (name, dec(arg)))
                else:
                    acts.append((a, None))
            steps.append(acts)
    line, _ = run_session(ctx['fzf'], ctx['tmp'], dict(opts=o, lines=lines, steps=steps))
    return evaluate(ctx['driver'], [line]) if line else []
