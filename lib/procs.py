"""Process-level drivers: the real fzf binary under a pipe or inside a private tmux server.

Every driver produces protocol lines `<area> <op> <args> => <implementation answer>` exactly like
the in-process harness does; the Lean driver then supplies the model answer and the spec verdict.
"""
import json, os, random, re, shutil, socket, subprocess, sys, tempfile, time, urllib.request, urllib.error
from concurrent.futures import ThreadPoolExecutor

sys.path.insert(0, os.path.dirname(os.path.abspath(__file__)))


def enc_bytes(b):
    return ','.join(str(x) for x in b) if b else '-'


def enc_strlist(xs):
    return '|'.join(enc_bytes(x) for x in xs) if xs else '_'


# --------------------------------------------------------------------------
# filter mode through a real pipe

WORDS = [b'foo', b'bar', b'Foo', b'baz', b'a', b'b', b'ab', b'x y', b'caf\xc3\xa9', b'\xe6\x97\xa5\xe6\x9c\xac', b'a-b', b'1', b'42',
         b'/', b'.go', b'src', b'', b' ', b'  lead', b'trail  ', b'\t']


def gen_pipe_case(r, pid=None):
    if pid == 'C11':
        return gen_pipe_case_ansi(r)
    read0 = r.random() < 0.3
    print0 = r.random() < 0.3
    printq = r.random() < 0.3
    ansi = r.random() < 0.25
    sort = r.random() < 0.7
    tac = r.random() < 0.25
    n = r.choice([0, 1, 2, 3, 5, 8, 8, 120, 250]) if r.random() < 0.9 else r.choice([3199, 3301])
    recs = []
    for _ in range(n):
        k = r.randint(0, 3)
        parts = [r.choice(WORDS) for _ in range(k)]
        sep = r.choice([b' ', b'/', b':', b'  ', b''])
        rec = sep.join(parts)
        if read0 and r.random() < 0.3:
            rec += b'\n' + r.choice(WORDS)          # multi-line record
        if ansi and r.random() < 0.6 and rec:
            i = r.randint(0, len(rec))
            # keep UTF-8 sequences intact
            while i < len(rec) and (rec[i] & 0xC0) == 0x80:
                i += 1
            rec = rec[:i] + r.choice([b'\x1b[31m', b'\x1b[1;32m', b'\x1b[m', b'\x1b[38;5;200m', b'\x1b[K']) + rec[i:] + r.choice([b'', b'\x1b[0m'])
        recs.append(rec)
    delim = b'\0' if read0 else b'\n'
    recs = [x.replace(delim, b'') for x in recs]
    stream = delim.join(recs)
    if recs and r.random() < 0.8:
        stream += delim
    withnth, dl = '-', 'awk'
    if not ansi and r.random() < 0.25:
        withnth = enc_bytes(r.choice([b'1', b'2', b'-1', b'2..', b'..2', b'2,1']))
        if r.random() < 0.5:
            dl = 'd:' + enc_bytes(r.choice([b':', b'/', b' ']))
    q = r.choice([b'', b'a', b'foo', b'b', b'o', b"'a", b'!foo', b'^f', b'o$', b'a | x', b'caf', b'foo bar'])
    return dict(read0=read0, print0=print0, printq=printq, ansi=ansi, sort=sort, tac=tac, withnth=withnth, delim=dl, query=q,
                stream=stream, chunks=r.choice([1, 1, 7, 64, 4096, 65536]), seed=r.randint(0, 10**6))


def gen_pipe_case_ansi(r):
    """--ansi through the whole pipeline: records with and without ESC bytes, backspace overstrikes, shift-out / shift-in,
    OSC-8 links and colours that stay open into the next record."""
    n = r.choice([1, 2, 3, 5, 8, 20])
    pieces = [b'\x1b[31m', b'\x1b[1;32m', b'\x1b[m', b'\x1b[38;5;200m', b'\x1b[K', b'\x1b[0m', b'\x0e', b'\x0f', b'\x08', b'o\x08x', b'N\x08N',
              b'\x1b]8;;http://x\x1b\\', b'\x1b]8;;\x1b\\', b'\x1b(B', b'\x1b[48;2;1;2;3m', b'_\x08a']
    noesc = [b'\x0e', b'\x0f', b'\x08', b'o\x08x', b'N\x08N', b'_\x08a']
    recs = []
    for _ in range(n):
        k = r.randint(1, 3)
        parts = [r.choice(WORDS) for _ in range(k)]
        rec = r.choice([b' ', b'/', b'']).join(parts)
        pool = noesc if r.random() < 0.5 else pieces      # half of the records hold no ESC byte at all
        for _ in range(r.randint(0, 3)):
            i = r.randint(0, len(rec))
            while i < len(rec) and (rec[i] & 0xC0) == 0x80:
                i += 1
            rec = rec[:i] + r.choice(pool) + rec[i:]
        recs.append(rec.replace(b'\n', b''))
    stream = b'\n'.join(recs) + (b'\n' if r.random() < 0.8 else b'')
    q = r.choice([b'', b'', b'a', b'foo', b'fx', b'ox', b'N', b"'a", b'b'])
    return dict(read0=False, print0=r.random() < 0.2, printq=False, ansi=True, sort=r.random() < 0.6, tac=r.random() < 0.2, withnth='-', delim='awk',
                query=q, stream=stream, chunks=r.choice([1, 7, 4096]), seed=r.randint(0, 10**6), nocolor=r.random() < 0.4)


def pipe_args(c):
    a = ['--scheme=default']
    if c['read0']:
        a.append('--read0')
    if c['print0']:
        a.append('--print0')
    if c['printq']:
        a.append('--print-query')
    if c['ansi']:
        a.append('--ansi')
    if c.get('nocolor'):
        a.append('--no-color')
    if not c['sort']:
        a.append('--no-sort')
    if c['tac']:
        a.append('--tac')
    if c['withnth'] != '-':
        a.append('--with-nth=' + bytes(int(x) for x in c['withnth'].split(',')).decode())
    if c['delim'] != 'awk':
        a.append('--delimiter=' + bytes(int(x) for x in c['delim'][2:].split(',')).decode())
    if c.get('sel1'):
        a += ['--select-1', '--exit-0', '--query=' + c['query'].decode('utf-8', 'surrogateescape')]
    else:
        a.append('--filter=' + c['query'].decode('utf-8', 'surrogateescape'))
    return a


def run_pipe_case(fzf, c):
    env = dict(os.environ, FZF_DEFAULT_OPTS='', FZF_DEFAULT_COMMAND='', TERM='xterm')
    env.pop('FZF_DEFAULT_OPTS_FILE', None)
    p = subprocess.Popen([fzf] + pipe_args(c), stdin=subprocess.PIPE, stdout=subprocess.PIPE, stderr=subprocess.PIPE, env=env)
    data, step = c['stream'], c['chunks']
    rr = random.Random(c['seed'])
    try:
        i = 0
        while i < len(data):
            n = step if step > 1 else rr.randint(1, 3)
            p.stdin.write(data[i:i + n])
            p.stdin.flush()
            i += n
            if step <= 64 and rr.random() < 0.02:
                time.sleep(0.001)
        p.stdin.close()
    except BrokenPipeError:
        pass
    out = p.stdout.read()
    p.wait(timeout=60)
    err = p.stderr.read()
    crashed = b'panic' in err or b'goroutine ' in err
    return p.returncode, out, crashed


def case_line_pipe(c, rc, out, crashed):
    b = lambda x: '1' if x else '0'
    lhs = 'filter proc %s %s %s %s %s %s %s %s %s %s' % (b(c['read0']), b(c['print0']), b(c['printq']), b(c['ansi']), b(c['sort']), b(c['tac']),
                                                      c['withnth'], c['delim'], enc_bytes(c['query']), enc_bytes(c['stream']))
    return lhs + ' => ' + ('crash' if crashed else '%d %s' % (rc, enc_bytes(out)))


def drv_pipe(tier, seed, ctx):
    from vcheck import evaluate
    n = 150 if tier == 'quick' else 6000
    r = random.Random(seed * 7919 + 11)
    cases = [gen_pipe_case(r, ctx.get('pid')) for _ in range(n)]

    def work(c):
        rc, out, crashed = run_pipe_case(ctx['fzf'], c)
        return case_line_pipe(c, rc, out, crashed)
    with ThreadPoolExecutor(max_workers=8) as ex:
        lines = list(ex.map(work, cases))
    if ctx.get('pid') == 'C07':
        # --select-1 / --exit-0: on inputs with at most one match fzf prints and exits without starting the
        # finder, exactly as filter mode does (an input with more matches would need a terminal: not run)
        extra = []
        for c, l in zip(list(cases), list(lines)):
            ans = l.split(' => ')[1].split(' ')
            if len(ans) != 2 or ans[0] not in ('0', '1'):
                continue
            term = 0 if c['print0'] else 10
            body = [int(x) for x in ans[1].split(',')] if ans[1] not in ('-', '') else []
            nrec = body.count(term) - (1 if c['printq'] else 0)
            if nrec <= 1 and (c['read0'] or term == 10 or True):
                c1 = dict(c, sel1=True)
                extra.append(c1)
        extra = extra[:60 if tier == 'quick' else 1500]

        def work1(c):
            rc, out, crashed = run_pipe_case(ctx['fzf'], c)
            return case_line_pipe(c, rc, out, crashed).replace('filter proc ', 'filter proc1 ', 1)
        with ThreadPoolExecutor(max_workers=8) as ex:
            lines += list(ex.map(work1, extra))
        cases = cases + extra
    rs = evaluate(ctx['driver'], lines)
    for res, c in zip(rs, cases):
        res['proc'] = dict(kind='pipe', argv=pipe_args(c), stdin=enc_bytes(c['stream']), chunks=c['chunks'])
    return rs, []


# --------------------------------------------------------------------------
# interactive sessions: a private tmux server is the terminal emulator

def free_port():
    s = socket.socket()
    s.bind(('127.0.0.1', 0))
    p = s.getsockname()[1]
    s.close()
    return p


class Session:
    """One fzf process inside its own tmux server, driven through --listen."""

    def __init__(self, fzf, args, lines, tmp, width=80, height=24, env=None, name=None, input_cmd=None, wrap=None, extra_args_fn=None, prepare=None):
        self.sock = 'verif-%d-%s' % (os.getpid(), name or hex(random.getrandbits(32))[2:])
        self.port = free_port()
        self.tmp = tmp
        self.dir = tempfile.mkdtemp(prefix='sess-', dir=tmp)
        self.out = os.path.join(self.dir, 'stdout')
        self.err = os.path.join(self.dir, 'stderr')
        self.rc = os.path.join(self.dir, 'rc')
        self.inp = os.path.join(self.dir, 'input')
        with open(self.inp, 'wb') as f:
            f.write(b''.join(l + b'\n' for l in lines))
        if extra_args_fn:
            args = list(args) + list(extra_args_fn(self.dir))
        if prepare:
            prepare(self.dir)
        quoted = ' '.join("'" + a.replace("'", "'\\''") + "'" for a in [fzf, '--listen', 'localhost:%d' % self.port] + list(args))
        envs = ' '.join("%s='%s'" % (k, v.replace("'", "'\\''")) for k, v in (env or {}).items())
        src = (input_cmd.replace('{d}', self.dir) if input_cmd else None) or ("cat '%s'" % self.inp)
        script = "%s | env FZF_DEFAULT_OPTS= FZF_DEFAULT_COMMAND= %s %s > '%s' 2> '%s'; echo $? > '%s'" % (src, envs, quoted, self.out, self.err, self.rc)
        if wrap:
            # run the pipeline inside a larger script ({d} = the session directory)
            script = wrap.replace('{d}', self.dir) % script
        self.script = script
        subprocess.run(['tmux', '-L', self.sock, '-f', '/dev/null', 'new-session', '-d', '-x', str(width), '-y', str(height), 'sh', '-c', script],
                       check=True, stdout=subprocess.DEVNULL, stderr=subprocess.DEVNULL)
        self.alive = True

    def _req_path(self, path, timeout=10.0):
        with urllib.request.urlopen('http://127.0.0.1:%d%s' % (self.port, path), timeout=timeout) as f:
            return f.read()

    def _req(self, data=None, timeout=3.0, headers=None):
        # GET: ask for every selected / matched item (the default limit is 100)
        path = '/' if data is not None else '/?limit=1000000'
        req = urllib.request.Request('http://127.0.0.1:%d%s' % (self.port, path), data=data, headers=headers or {})
        with urllib.request.urlopen(req, timeout=timeout) as f:
            return f.read()

    def get(self, timeout=3.0):
        return json.loads(self._req(timeout=timeout).decode('utf-8', 'replace'))

    def wait_ready(self, deadline=8.0):
        t0 = time.time()
        while time.time() - t0 < deadline:
            try:
                return self.get(timeout=1.0)
            except Exception:
                if os.path.exists(self.rc):
                    return None
                time.sleep(0.03)
        return None

    def post(self, actions, timeout=3.0):
        data = actions.encode() if isinstance(actions, str) else actions
        for attempt in range(2):
            try:
                self._req(data=data, timeout=timeout)
                return True
            except urllib.error.HTTPError:
                return True          # answered (e.g. 400 for an unknown action): the server is alive
            except Exception:
                if os.path.exists(self.rc):
                    return False
                time.sleep(0.05)
        return False

    def settle(self, tries=60, delay=0.015, want=None):
        """Poll until two consecutive states agree and nothing is loading."""
        prev = None
        for _ in range(tries):
            try:
                cur = self.get(timeout=2.0)
            except Exception:
                if os.path.exists(self.rc):
                    return None
                time.sleep(delay)
                continue
            key = json.dumps(cur, sort_keys=True)
            if prev == key and not cur.get('reading') and (want is None or want(cur)):
                return cur
            prev = key
            time.sleep(delay)
        return cur if prev else None

    def capture(self):
        p = subprocess.run(['tmux', '-L', self.sock, 'capture-pane', '-p', '-t', '0'], stdout=subprocess.PIPE, stderr=subprocess.DEVNULL)
        return p.stdout.decode('utf-8', 'replace').split('\n')

    def send_keys(self, *keys):
        subprocess.run(['tmux', '-L', self.sock, 'send-keys', '-t', '0'] + list(keys), stdout=subprocess.DEVNULL, stderr=subprocess.DEVNULL)

    def resize(self, w, h):
        subprocess.run(['tmux', '-L', self.sock, 'resize-window', '-t', '0', '-x', str(w), '-y', str(h)], stdout=subprocess.DEVNULL, stderr=subprocess.DEVNULL)

    def wait_exit(self, deadline=5.0):
        t0 = time.time()
        while time.time() - t0 < deadline:
            if os.path.exists(self.rc):
                try:
                    txt = open(self.rc).read().strip()
                    if txt:
                        return int(txt)
                except Exception:
                    pass
            time.sleep(0.02)
        return None

    def stdout(self):
        try:
            return open(self.out, 'rb').read()
        except Exception:
            return b''

    def stderr(self):
        try:
            return open(self.err, 'rb').read()
        except Exception:
            return b''

    def close(self):
        subprocess.run(['tmux', '-L', self.sock, 'kill-server'], stdout=subprocess.DEVNULL, stderr=subprocess.DEVNULL)
        shutil.rmtree(self.dir, ignore_errors=True)
        self.alive = False


def drv_race(tier, seed, ctx):
    """The concurrent matcher/loader cases of the harness, in a harness built with Go's race
    detector. Every reported race becomes a failing case `matcher race ... => <n>`."""
    from vcheck import evaluate, VERIF, GOENV
    hr = os.path.join(ctx['tmp'], 'harness-race')
    from vcheck import modfile_args
    # the race detector needs cgo (the other builds are made without it)
    b = subprocess.run(['go', 'build'] + modfile_args(ctx['tmp']) + ['-race', '-tags', 'verif', '-o', hr, '.'], cwd=os.path.join(VERIF, 'harness'),
                       env=dict(GOENV, CGO_ENABLED='1'), capture_output=True, text=True)
    if b.returncode != 0:
        return [], ['BROKEN: race build failed (no verdict from the race detector): ' + b.stderr[-300:]]
    n = 240 if tier == 'quick' else 3000
    g = subprocess.run([ctx['harness'], 'gen', 'matcher', str(seed * 31 + 5), str(n)], capture_output=True, text=True, env=GOENV)
    cases = [l.split(' => ')[0] for l in g.stdout.splitlines() if l.startswith('matcher conc') or l.startswith('matcher scan')]
    g = subprocess.run([ctx['harness'], 'gen', 'rank', str(seed * 31 + 6), str(n)], capture_output=True, text=True, env=GOENV)
    cases += [l.split(' => ')[0] for l in g.stdout.splitlines() if l.startswith('rank frozen')]
    shards = [cases[i::8] for i in range(8)]

    def work(sh):
        if not sh:
            return [], ''
        env = dict(GOENV, GORACE='halt_on_error=0')
        p = subprocess.run([hr, 'eval'], input='\n'.join(sh) + '\n', capture_output=True, text=True, env=env)
        return p.stdout.splitlines(), p.stderr
    lines, races, first = [], 0, ''
    with ThreadPoolExecutor(max_workers=8) as ex:
        for out, err in ex.map(work, shards):
            lines += out
            k = err.count('WARNING: DATA RACE')
            races += k
            if k and not first:
                first = err[err.index('WARNING: DATA RACE'):][:1500]
    lines.append('matcher race %d => %d' % (len(cases), races))
    rs = evaluate(ctx['driver'], lines)
    for res in rs:
        res['proc'] = dict(kind='race-detector', report=first) if res['case'].startswith('matcher race') else dict(kind='race-build')
    return rs, []


DRIVERS = {'pipe': drv_pipe, 'race': drv_race}


def run(name, tier, seed, ctx):
    if name not in DRIVERS:
        import procs_tmux, procs_conv, procs_prev, procs_screen, procs_robust, procs_hist, procs_expand  # register the interactive drivers
    return DRIVERS[name](tier, seed, ctx)


def replay(rp, ctx):
    from vcheck import evaluate
    pr = rp.get('proc') or {}
    if pr.get('kind') == 'pipe' and rp.get('case'):
        # re-run the binary on the recorded stdin / argv
        lhs = rp['case'].split(' => ')[0]
        toks = lhs.split(' ')
        stream = bytes(int(x) for x in toks[-1].split(',')) if toks[-1] != '-' else b''
        env = dict(os.environ, FZF_DEFAULT_OPTS='', FZF_DEFAULT_COMMAND='')
        p = subprocess.run([ctx['fzf']] + pr['argv'], input=stream, stdout=subprocess.PIPE, stderr=subprocess.PIPE, env=env, timeout=120)
        line = lhs + ' => %d %s' % (p.returncode, enc_bytes(p.stdout))
        return evaluate(ctx['driver'], [line])
    if pr.get('kind') == 'tmux-preview':
        import procs_prev
        return procs_prev.replay(rp, ctx)
    if pr.get('kind') == 'tmux-expand':
        import procs_expand
        return procs_expand.replay(rp, ctx)
    if pr.get('kind') == 'tmux-hist':
        import procs_hist
        return procs_hist.replay(rp, ctx)
    if pr.get('kind') == 'tmux-robust':
        import procs_robust
        return procs_robust.replay(rp, ctx)
    if pr.get('kind') == 'tmux-screen':
        import procs_screen
        return procs_screen.replay(rp, ctx)
    if pr.get('kind') == 'tmux-conv':
        import procs_conv
        return procs_conv.replay(rp, ctx)
    if pr.get('kind') in ('race-detector', 'race-build'):
        rs, _ = drv_race('quick', 1, ctx)
        return rs
    if pr.get('kind'):
        import procs_tmux
        return procs_tmux.replay(rp, ctx)
    return []
