"""C20 end to end: the real fzf with a --preview command that logs every invocation (pid, line,
query) and then runs for a line-specific time (instant, slow, incremental, never-ending), driven
through --listen with cursor movements / query edits / selections arriving 0..40 ms apart.
Observed: the invocation log, the process table (pids from the log), the preview pane, leftovers
after the session has ended."""
import json, os, random, shutil, tempfile, time
from concurrent.futures import ThreadPoolExecutor

import procs
from procs import Session, enc_bytes

DURS = ['0', '0', '0.15', '0.4', '100000', '100000', 'inc']


def gen_prev(r, tier):
    n = r.choice([3, 8, 20, 60])
    items = ['%d %s' % (k, r.choice(DURS)) for k in range(n)]
    kind = r.choice(['plain', 'plain', 'query', 'plus', 'file', 'index'])
    steps = []
    for _ in range(r.randrange(2, 14)):
        k = r.random()
        if k < 0.6:
            a = r.choice(['up', 'up', 'down', 'first', 'last', 'page-up', 'half-page-up', 'up+up', 'up+down'])
        elif k < 0.8:
            a = 'change-query(%s)' % r.choice(['', '1', '0', '2', 'inc', '00', '5'])
        elif k < 0.9:
            a = r.choice(['toggle', 'toggle+up', 'select-all', 'deselect-all'])
        else:
            a = r.choice(['refresh-preview', 'toggle-preview+toggle-preview', 'change-preview-window(up,40%)', 'change-preview-window(right,30%)',
                          'change-preview-window(down,50%|right,50%)'])
        steps.append((r.choice([0, 0, 1, 2, 5, 15, 40, 150]), a))
    if r.random() < 0.3:
        # the template itself changes during the session (change-preview to one that uses {q}), the window
        # options change afterwards, then the query is edited while the cursor stays where it is
        kind = r.choice(['plain', 'plus'])
        if r.random() < 0.6:
            items = ['0 ' + r.choice(['0', '0', '0.15', 'inc'])]
        pre = steps[:r.randrange(0, 3)]
        mid = [(r.choice([0, 50, 150]), '@QUERY@')]
        if r.random() < 0.8:
            mid.append((r.choice([0, 50, 150]), r.choice(['change-preview-window(up,40%)', 'change-preview-window(right,30%)', 'change-preview-window(down)',
                                                         'change-preview-window(hidden)+change-preview-window(right)'])))
        for _ in range(r.randrange(1, 4)):
            mid.append((r.choice([0, 30, 150]), 'change-query(%s)' % r.choice(['0', '', '0 ', '00', ' 0'])))
        steps = pre + mid
    return dict(items=items, kind=kind, steps=steps)


def gen_slowhead(r):
    """Directed: a command that is silent for longer than the "Loading .." delay and then prints several lines;
    the cursor moves only after the previous preview has been shown in full — every line of the pane must then
    belong to the line the cursor is on."""
    n = r.choice([3, 5, 8])
    items = ['%d 0' % k for k in range(n)]
    steps = [(1700, r.choice(['up', 'down', 'up', 'last', 'first', 'up+up'])) for _ in range(r.randint(1, 3))]
    return dict(items=items, kind='slowhead', steps=steps)


def alive_state(pid):
    try:
        return open('/proc/%d/stat' % pid).read().split(') ')[1][0]
    except Exception:
        return None


def read_log(path):
    out = []
    try:
        for l in open(path, errors='replace').read().splitlines():
            f = l.split(' ', 3)
            if len(f) >= 3 and f[0] == 'S':
                out.append((int(f[1]), f[2], f[3][2:] if len(f) > 3 else ''))
    except FileNotFoundError:
        pass
    return out


def run_prev(fzf, tmp, sc):
    d = tempfile.mkdtemp(prefix='prev-', dir=tmp)
    try:
        log = os.path.join(d, 'log')
        tdir = os.path.join(d, 'tmpdir')
        os.mkdir(tdir)
        def mkcmd(kind):
            if kind == 'slowhead':
                return ('x={}; k=${x%%%% *}; echo "S $$ $k q="\'\' >> %s; sleep 0.8; echo "OUT $k"; echo "L2 $k"; echo "L3 $k"' % log)
            body = {'plain': 'echo "OUT $k"', 'query': 'echo "OUT $k" {q}', 'plus': 'echo "OUT $k"; echo SEL {+}', 'file': 'echo "OUT $k"; cat {f}',
                    'index': 'echo "OUT $k"; echo "N="{n}"="'}[kind]
            return ('x={}; k=${x%% *}; d=${x#* }; echo "S $$ $k q="%s >> %s; %s; '
                    'if [ "$d" = inc ]; then for i in 1 2 3 4 5; do echo "line $i"; sleep 0.05; done; else exec sleep $d; fi'
                    % ('{q}' if kind == 'query' else "''", log, body))
        cmd = mkcmd(sc['kind'])
        kind = sc['kind']
        args = ['--preview', cmd, '--multi', '--preview-window', 'right,50%']
        s = Session(fzf, args, [i.encode() for i in sc['items']], tmp, width=100, height=24, env={'TMPDIR': tdir})
        max_alive = 0
        try:
            if s.wait_ready() is None:
                return None, 'fzf did not start'
            time.sleep(0.15)
            for delay, act in sc['steps']:
                if delay:
                    time.sleep(delay / 1000.0)
                if act == '@QUERY@':
                    act = 'change-preview(%s)' % mkcmd('query')
                    kind = 'query'
                if not s.post(act):
                    return None, 'POST failed'
                alive = [p for p, _, _ in read_log(log) if alive_state(p) not in (None, 'Z')]
                max_alive = max(max_alive, len(set(alive)))
            # quiescence: state and log stable for a while (a superseded command is killed within 0.5 s)
            prev, stable, st, t0 = None, 0, None, time.time()
            while time.time() - t0 < 6.0 and stable < 5:
                time.sleep(0.15)
                try:
                    st = s.get()
                except Exception:
                    return None, 'GET failed'
                key = (json.dumps(st, sort_keys=True), len(read_log(log)))
                stable = stable + 1 if key == prev else 0
                prev = key
                alive = [p for p, _, _ in read_log(log) if alive_state(p) not in (None, 'Z')]
                max_alive = max(max_alive, len(set(alive)))
            entries = read_log(log)
            cur = st.get('current')
            if cur and entries and entries[-1][1] != cur['text'].split(' ')[0]:
                # not caught up: give it two more seconds before calling it stuck
                time.sleep(2.0)
                st = s.get()
                entries = read_log(log)
                cur = st.get('current')
            curk = cur['text'].split(' ')[0] if cur else '-'
            lastk, lastq = (entries[-1][1] or '-', entries[-1][2]) if entries else ('-', '')   # no current line: {} expands to nothing
            shown = 0
            if cur and sc['kind'] == 'slowhead':
                # every line of the output must be the current line's: none left over from the one shown before
                for _ in range(25):
                    rows = s.capture()
                    l2 = [row for row in rows if 'L2 ' in row or 'L3 ' in row]
                    if any(('OUT %s' % curk) in row for row in rows) and len(l2) == 2 and all(('L2 %s' % curk) in row or ('L3 %s' % curk) in row for row in l2):
                        shown = 1
                        break
                    time.sleep(0.1)
            elif cur:
                for _ in range(10):
                    rows = s.capture()
                    # with {n} in the template the ordinal shown is the current item's (items are numbered as their keys)
                    if any(('OUT %s' % curk) in row for row in rows) and (kind != 'index' or any(('N=%s=' % curk) in row for row in rows)):
                        shown = 1
                        break
                    time.sleep(0.1)
            query = st.get('query', '')
        finally:
            s.post('abort')
            s.wait_exit(2.0)
            s.close()
        time.sleep(0.15)
        after = [p for p, _, _ in read_log(log) if alive_state(p) not in (None, 'Z')]
        for p in after:
            try:
                os.kill(p, 9)
            except Exception:
                pass
        left = len(os.listdir(tdir))
        steps = ';'.join('%d:%s' % (dl, ','.join(str(x) for x in a.encode())) for dl, a in sc['steps'])
        lhs = 'preview sess %s %d %s' % (kind, len(sc['items']), steps)
        return lhs + ' => %s %s %s %s %d %d %d %d %d' % (curk, enc_bytes(query.encode()), lastk, enc_bytes(lastq.encode()), shown, max_alive,
                                                         len(set(after)), left, len(entries)), None
    finally:
        shutil.rmtree(d, ignore_errors=True)


def gen_tail(r):
    n1 = r.randint(3, 7)
    n2 = r.randint(2, 6)
    drop = r.randint(1, min(n1 - 1, n2))            # how many of the first lines --tail trims away (none before the second part arrives)
    sel = r.sample(range(n1 - 1), r.randint(1, min(3, n1 - 1)))
    if r.random() < 0.7 and 0 not in sel:
        sel = [0] + sel[:2]                          # the first line is always among the trimmed ones
    return dict(kind='tail', n1=n1, n2=n2, tail=n1 + n2 - drop, sel=sel, gap=r.choice([2.5, 3.0]))


def run_tail(fzf, tmp, sc):
    d = tempfile.mkdtemp(prefix='prevt-', dir=tmp)
    try:
        log = os.path.join(d, 'log')
        n1, n2 = sc['n1'], sc['n2']
        p1 = ''.join('k%d\n' % i for i in range(n1))
        p2 = ''.join('z%d\n' % i for i in range(n2))
        cmd = 'echo "S $$ "{1}" p="{+1} >> %s; echo "OUT "{+1}' % log
        args = ['--preview', cmd, '--multi', '--tail', str(sc['tail']), '--preview-window', 'right,50%']

        def prep(dd):
            open(os.path.join(dd, 'p1'), 'w').write(p1)
            open(os.path.join(dd, 'p2'), 'w').write(p2)
        s = Session(fzf, args, [], tmp, width=100, height=24, input_cmd="(cat '{d}/p1'; sleep %s; cat '{d}/p2'; sleep 0.3)" % sc['gap'], prepare=prep)
        try:
            if s.wait_ready() is None:
                return None, 'fzf did not start'
            t0, st = time.time(), None
            while time.time() - t0 < 3.0:
                st = s.get()
                if st and st['totalCount'] >= n1:
                    break
                time.sleep(0.02)
            if not st or st['totalCount'] != n1:
                return None, 'the first part of the input could not be observed on its own'
            # selections one by one (selection order), then the cursor rests on the last line of the first part
            for k in sc['sel']:
                s.post('pos(%d)+select' % (k + 1))
            s.post('change-query(k%d)' % (n1 - 1))
            st = s.get()
            if not st or st['totalCount'] != n1 or len(st.get('selected', [])) != len(sc['sel']):
                return None, 'the second part of the input arrived before the selection was made'
            # the second part arrives and --tail trims
            t0 = time.time()
            st = None
            while time.time() - t0 < 6.0:
                time.sleep(0.1)
                st = s.get()
                if st and st['totalCount'] == min(sc['tail'], n1 + n2) and not st.get('reading', False):
                    break
            prev, stable = None, 0
            t0 = time.time()
            while time.time() - t0 < 5.0 and stable < 5:
                time.sleep(0.15)
                st = s.get()
                key = (json.dumps(st, sort_keys=True), os.path.getsize(log) if os.path.exists(log) else 0)
                stable = stable + 1 if key == prev else 0
                prev = key
            cur = st.get('current')
            curk = cur['text'] if cur else '-'
            seln = ','.join(x['text'] for x in st.get('selected', [])) or '-'
            lastk, lastp = '-', '-'
            try:
                rows = [l for l in open(log, errors='replace').read().splitlines() if l.startswith('S ')]
                if rows:
                    f = rows[-1].split(' ', 3)
                    lastk = f[2]
                    lastp = ','.join(f[3][2:].split()) or '-'
            except FileNotFoundError:
                pass
            want = seln if seln != '-' else curk
            shown = 0
            if cur:
                for _ in range(10):
                    if any(('OUT ' + ' '.join(want.split(','))) in row for row in s.capture()):
                        shown = 1
                        break
                    time.sleep(0.1)
        finally:
            s.post('abort')
            s.wait_exit(2.0)
            s.close()
        lhs = 'preview plus %d %d %d %s' % (n1, n2, sc['tail'], ','.join(str(k) for k in sc['sel']))
        return lhs + ' => %s %s %s %s %d' % (curk, lastk, lastp, seln, shown), None
    finally:
        shutil.rmtree(d, ignore_errors=True)


def _work(ctx, sc):
    try:
        if sc.get('kind') == 'tail':
            return run_tail(ctx['fzf'], ctx['tmp'], sc)
        return run_prev(ctx['fzf'], ctx['tmp'], sc)
    except Exception as e:
        return None, 'driver error: %r' % (e,)


def drv_preview(tier, seed, ctx):
    from vcheck import evaluate
    n = 24 if tier == 'quick' else 400
    r = random.Random(seed * 32452843 + 9)
    scs = ([gen_prev(r, tier) for _ in range(n)] + [gen_tail(r) for _ in range(6 if tier == 'quick' else 60)] +
           [gen_slowhead(r) for _ in range(4 if tier == 'quick' else 40)])
    notes = []
    with ThreadPoolExecutor(max_workers=8) as ex:
        outs = list(ex.map(lambda sc: _work(ctx, sc), scs))
    lines, kept, undriven = [], [], 0
    for (line, info), sc in zip(outs, scs):
        if line is None:
            undriven += 1
            if len(notes) < 2:
                notes.append(str(info))
        else:
            lines.append(line)
            kept.append(sc)
    rs = evaluate(ctx['driver'], lines)
    out, flaky = [], 0
    for res, sc in zip(rs, kept):
        if res['eq'] and res['spec'] != 'FAIL':
            res['proc'] = dict(kind='tmux-preview', scenario=sc)
            out.append(res)
            continue
        # schedule-dependent: believed only if the same scenario fails again (it need not: the
        # schedule differs); a failure that never repeats in 3 more runs is reported as a flake note
        again = []
        for _ in range(3):
            line, _ = _work(ctx, sc)
            rr = evaluate(ctx['driver'], [line]) if line else []
            again.append(rr[0] if rr else None)
        same = [a for a in again if a is not None and (not a['eq'] or a['spec'] == 'FAIL')]
        if same or 'pane' not in (res.get('why') or ''):
            res['proc'] = dict(kind='tmux-preview', scenario=sc, repeats='%d of 3 re-runs' % len(same))
            out.append(res)
        else:
            flaky += 1
            ok = next((a for a in again if a is not None), None)
            if ok:
                ok['proc'] = dict(kind='tmux-preview', scenario=sc)
                out.append(ok)
    if flaky:
        notes.append('%d preview session(s) failed once and passed 3 re-runs (schedule-dependent; not reported as a violation)' % flaky)
    if undriven:
        notes.append('%d of %d preview sessions could not be driven' % (undriven, len(scs)))
    return out, notes


def replay(rp, ctx):
    from vcheck import evaluate
    sc = (rp.get('proc') or {}).get('scenario')
    if not sc:
        return []
    sc['steps'] = [(d, a) for d, a in sc['steps']]
    rs = []
    for _ in range(3):
        line, _ = _work(ctx, sc)
        if line:
            rs += evaluate(ctx['driver'], [line])
    return rs


procs.DRIVERS['preview'] = drv_preview
