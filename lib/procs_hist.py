"""C18 process-level driver: the real fzf with --history inside a private tmux server; query changes,
prev-history and next-history are posted through --listen; observed are the query line after every
step and the bytes of the history file after the session ended (accept = submit, abort = no submit).
The Lean driver replays the same navigation on the history model."""
import os, random, time
from concurrent.futures import ThreadPoolExecutor

import procs
from procs import Session, enc_bytes

WORDS = ['a', 'b', 'foo', 'bar', 'foo bar', 'x y z', "it's", 'café', 'q', 'alpha', '  lead', 'trail  ', '!neg', "'ex", '^p', 's$', 'a | b']


def gen(r, tier):
    if r.random() < 0.15:
        initial = None
    else:
        es = [r.choice(WORDS) for _ in range(r.randint(0, 6))]
        initial = ''.join(e + '\n' for e in es)
        if es and r.random() < 0.2:
            initial = initial[:-1]           # no trailing newline
    m = r.choice([1, 2, 3, 5, 100])
    navs = []
    for _ in range(r.randint(1, 10 if tier == 'quick' else 30)):
        x = r.random()
        if x < 0.4:
            navs.append(('p', None))
        elif x < 0.6:
            navs.append(('n', None))
        elif x < 0.72:
            navs.append(('e', ''))            # the line is cleared
        else:
            navs.append(('e', r.choice(WORDS)))
    if r.random() < 0.4:
        # edit-and-return: recall an entry (or stay on the scratch line), edit it — possibly to the empty
        # line —, move away and come back: the edit must be what is shown, and what is submitted
        k = r.randint(0, 3)
        edit = ('e', r.choice(['', '', r.choice(WORDS)]))
        away, back = r.choice([(('p', None), ('n', None)), (('n', None), ('p', None))])
        navs = navs[:r.randint(0, 2)] + [('p', None)] * k + [edit, away, back] + navs[:r.randint(0, 1)]
    return dict(initial=initial, max=m, navs=navs, submit=int(r.random() < 0.75))


def run_case(fzf, tmp, c):
    s = None
    try:
        s = Session(fzf, ['--history-size=%d' % c['max']], [b'alpha', b'beta', b'foo bar'], tmp, width=60, height=10,
                    extra_args_fn=lambda d: ['--history=' + os.path.join(d, 'hist')],
                    prepare=(lambda d: open(os.path.join(d, 'hist'), 'wb').write(c['initial'].encode())) if c['initial'] is not None else None)
        hist = os.path.join(s.dir, 'hist')
        if s.wait_ready() is None:
            return None, 'did not start: ' + s.stderr().decode('utf-8', 'replace')[-200:]
        obs = []
        for kind, arg in c['navs']:
            if kind == 'p':
                s.post('prev-history')
            elif kind == 'n':
                s.post('next-history')
            elif arg == '':
                s.post('clear-query')
            else:
                s.post('change-query(%s)' % arg)
            st = s.settle()
            if st is None:
                return None, 'session ended early'
            obs.append(enc_bytes(st['query'].encode()))
        s.post('accept' if c['submit'] else 'abort')
        rc = s.wait_exit(6.0)
        if rc is None:
            return None, 'did not exit'
        try:
            data = open(hist, 'rb').read()
        except FileNotFoundError:
            data = b''
    finally:
        if s is not None:
            s.close()
    navs = '/'.join('p' if k == 'p' else 'n' if k == 'n' else 'e:' + enc_bytes(a.encode()) for k, a in c['navs']) or '_'
    file0 = '!' if c['initial'] is None else enc_bytes(c['initial'].encode())
    return 'hist psess %s %d %s %d => %s %s' % (file0, c['max'], navs, c['submit'], enc_bytes(data), '/'.join(obs) or '_'), None


def drv_histsess(tier, seed, ctx):
    from vcheck import evaluate
    n = 24 if tier == 'quick' else 400
    r = random.Random(seed * 2654435761 % (2 ** 31) + 17)
    cases = [gen(r, tier) for _ in range(n)]
    notes = []

    def work(c):
        try:
            return run_case(ctx['fzf'], ctx['tmp'], c)
        except Exception as e:
            return None, 'driver error: %r' % (e,)
    with ThreadPoolExecutor(max_workers=8) as ex:
        outs = list(ex.map(work, cases))
    lines = [l for l, _ in outs if l]
    bad = [i for l, i in outs if not l]
    if bad:
        notes.append('%d history sessions could not be driven: %s' % (len(bad), bad[0]))
    rs = evaluate(ctx['driver'], lines)
    for x in rs:
        x['proc'] = dict(kind='tmux-hist')
    return rs, notes


procs.DRIVERS['histsess'] = drv_histsess


def replay(rp, ctx):
    from vcheck import evaluate
    toks = rp['case'].split(' => ')[0].split(' ')
    dec = lambda x: bytes(int(v) for v in x.split(',')).decode('utf-8', 'replace') if x not in ('-', '') else ''
    navs = []
    if toks[4] != '_':
        for t in toks[4].split('/'):
            navs.append(('p', None) if t == 'p' else ('n', None) if t == 'n' else ('e', dec(t[2:])))
    c = dict(initial=None if toks[2] == '!' else dec(toks[2]), max=int(toks[3]), navs=navs, submit=int(toks[5]))
    line, _ = run_case(ctx['fzf'], ctx['tmp'], c)
    rs = evaluate(ctx['driver'], [line]) if line else []
    for x in rs:
        x['proc'] = dict(kind='tmux-hist')
    return rs
