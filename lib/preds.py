"""Named predicates over shrunk replay cases, used by known_findings.json."""


def _v2_single_char_forward(toks, r):
    # algo v2 <scheme> <cs> <norm> <fwd> <withPos> <slab> <repr> <text> <pattern>
    return len(toks) >= 11 and toks[5] == '1' and ',' not in toks[10] and toks[10] not in ('-', '')


def _pure_v2(toks, r):
    return len(toks) >= 3 and toks[2] == 'v2'


PREDS = {'v2_single_char_forward': _v2_single_char_forward, 'pure_v2': _pure_v2}
