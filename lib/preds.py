"""Named predicates over shrunk replay cases, used by known_findings.json."""
PREDS = {}
