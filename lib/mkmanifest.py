#!/usr/bin/env python3
"""Regenerates MANIFEST.json from lib/props.py (claimed checks) and properties.jsonl."""
import json, os, subprocess, sys
sys.path.insert(0, os.path.dirname(os.path.abspath(__file__)))
from props import PROPS, NOT_CLAIMED
V = os.path.normpath(os.path.join(os.path.dirname(os.path.abspath(__file__)), '..'))
props = [json.loads(l) for l in open(os.path.join(V, 'properties.jsonl'))]
checks = []
for p in props:
    c = PROPS.get(p['id'])
    if not c or not c.get('claimed', True):
        continue
    checks.append(dict(
        property_id=p['id'], quick_cmd='bin/check %s --tier quick' % p['id'],
        thorough_cmd='bin/check %s --tier thorough' % p['id'], evidence_file='evidence/%s.json' % p['id'],
        replay_cmd_template='bin/check %s --replay {path}' % p['id'], engine='lean-proof+correspondence',
        level_claimed=dict(category='proof', text=c['level_text'], design_ref='DESIGN.md §5 ' + p['id']),
        level_note=c['level_note'], technique=c['technique']))
claimed = [c['property_id'] for c in checks]
try:
    commits = subprocess.run(['git', '-C', '/repo', 'log', '--format=%H %s', '--grep=^verif hook', '-i'], stdout=subprocess.PIPE).stdout.decode().split('\n')
    commits = [c.split(' ')[0] for c in commits if c.strip()]
except Exception:
    commits = []
m = dict(
    version=1, setup_cmd='bin/setup',
    hooks=dict(guard='verif', enable='go build -tags verif (harness module with `replace github.com/junegunn/fzf => /repo`); hook files are src/**/verif_hooks.go with //go:build verif',
               baseline_off_cmd='cd /repo && go test -vet=off -count=1 ./...', source_commits=commits, add_only=True),
    engines=[dict(name='lean-proof+correspondence', path='bin/check', serves_properties=claimed,
                  kind_free_text='Lean 4 theorems about a model of the code (lean/Fzf/Props) + a differential correspondence of the model executable with the Go implementation built from /repo; the executable spec is evaluated on the implementation answers to find failing inputs')],
    checks=checks,
    notes='See DESIGN.md. bin/check honours VERIF_SEED and VERIF_TIER, rewrites evidence/<id>.json, writes replay files under replays/.',
    not_applicable=[dict(property_id=p['id'], reason=NOT_CLAIMED.get(p['id'], 'check not built yet (see DESIGN.md §9 build order)')) for p in props if p['id'] not in claimed])
json.dump(m, open(os.path.join(V, 'MANIFEST.json'), 'w'), indent=1)
print('claimed:', ' '.join(claimed))
