"""Verdict machinery shared by every property check (see bin/check)."""
import argparse, fcntl, hashlib, json, os, re, shutil, subprocess, sys, tempfile, time
from concurrent.futures import ThreadPoolExecutor

VERIF = os.path.normpath(os.path.join(os.path.dirname(os.path.abspath(__file__)), '..'))
REPO = os.environ.get('VERIF_REPO', '/repo')
LEAN = os.path.join(VERIF, 'lean')
HARNESS = os.path.join(VERIF, 'harness')
NCPU = os.cpu_count() or 4

GOENV = dict(os.environ, GOFLAGS='-mod=mod', GOPROXY='off', GOSUMDB='off',
             GOTOOLCHAIN='local', CGO_ENABLED=os.environ.get('CGO_ENABLED', '0'))

ALLOWED_AXIOMS = {'propext', 'Classical.choice', 'Quot.sound'}
FORBIDDEN = re.compile(r'\b(sorry|admit|native_decide|bv_decide|implemented_by|unsafe)\b|^axiom |maxHeartbeats 0')

from props import PROPS  # noqa: E402


def log(*a):
    print(*a, file=sys.stderr, flush=True)


def run(cmd, cwd=None, env=None, inp=None, timeout=None):
    p = subprocess.run(cmd, cwd=cwd, env=env, input=inp, stdout=subprocess.PIPE,
                       stderr=subprocess.STDOUT, timeout=timeout)
    return p.returncode, p.stdout.decode('utf-8', 'replace')


class Lock:
    def __init__(self, path):
        self.path = path

    def __enter__(self):
        self.f = open(self.path, 'w')
        fcntl.flock(self.f, fcntl.LOCK_EX)

    def __exit__(self, *a):
        fcntl.flock(self.f, fcntl.LOCK_UN)
        self.f.close()


# --------------------------------------------------------------------------
# Side A: proofs

def strip_comments(src):
    """Remove Lean comments (nested block comments and line comments)."""
    out, i, depth, n = [], 0, 0, len(src)
    while i < n:
        if src.startswith('/-', i):
            depth += 1; i += 2; continue
        if depth and src.startswith('-/', i):
            depth -= 1; i += 2; continue
        if depth:
            if src[i] == '\n':
                out.append('\n')
            i += 1; continue
        if src.startswith('--', i):
            while i < n and src[i] != '\n':
                i += 1
            continue
        out.append(src[i]); i += 1
    return ''.join(out)


def forbidden_scan():
    hits = []
    for root, _, files in os.walk(os.path.join(LEAN, 'Fzf')):
        for f in files:
            if not f.endswith('.lean'):
                continue
            p = os.path.join(root, f)
            for ln, line in enumerate(strip_comments(open(p).read()).split('\n'), 1):
                if FORBIDDEN.search(line):
                    hits.append('%s:%d: %s' % (os.path.relpath(p, LEAN), ln, line.strip()))
    return hits


def modfile_args(tmp):
    """The harness module replaces the fzf module by /repo; for another tree (VERIF_REPO) a copy
    of go.mod with the replacement redirected is used (-modfile)."""
    if os.path.realpath(REPO) == '/repo':
        return []
    mf = os.path.join(tmp, 'alt.mod')
    if not os.path.exists(mf):
        txt = open(os.path.join(HARNESS, 'go.mod')).read().replace('=> /repo', '=> ' + REPO)
        open(mf, 'w').write(txt)
        shutil.copy(os.path.join(REPO, 'go.sum'), os.path.join(tmp, 'alt.sum'))
    return ['-modfile=' + mf]


def regenerate(tmp):
    """Regenerate Fzf/Generated/*.lean from REPO's working tree. Returns (ok, output)."""
    gen_dir = os.path.join(LEAN, 'Fzf', 'Generated')
    os.makedirs(gen_dir, exist_ok=True)
    ext = os.path.join(HARNESS, 'extract')
    if not os.path.isdir(ext):
        return True, 'no extractor'
    out_dir = os.path.join(tmp, 'generated')
    os.makedirs(out_dir, exist_ok=True)
    shutil.copy(os.path.join(REPO, 'go.sum'), os.path.join(HARNESS, 'go.sum'))
    rc, out = run(['go', 'run'] + modfile_args(tmp) + ['-tags', 'verif', './extract', REPO, out_dir], cwd=HARNESS, env=GOENV, timeout=600)
    if rc != 0:
        return False, out
    # scalar leaf functions translated from the Go source (harness/gotolean)
    rc, out2 = run(['go', 'run'] + modfile_args(tmp) + ['./gotolean', REPO, os.path.join(out_dir, 'GoFuncs.lean')], cwd=HARNESS, env=GOENV, timeout=600)
    if rc != 0:
        return False, out + out2
    produced = set()
    for f in sorted(os.listdir(out_dir)):
        produced.add(f)
        new = open(os.path.join(out_dir, f)).read()
        dst = os.path.join(gen_dir, f)
        if not os.path.exists(dst) or open(dst).read() != new:
            open(dst, 'w').write(new)
    for f in os.listdir(gen_dir):
        if f.endswith('.lean') and f not in produced:
            os.remove(os.path.join(gen_dir, f))
    return True, out


def theorem_names(pid):
    src = strip_comments(open(os.path.join(LEAN, 'Fzf', 'Props', pid + '.lean')).read())
    return re.findall(r'^\s*theorem\s+(%s_\w+)' % pid, src, re.M)


def build_proofs(pid, tmp, tier):
    """Returns dict(ok, obligations, discharged, failures[list of (name, detail)], driver)."""
    res = dict(ok=True, obligations=[], discharged=[], failures=[], driver=None, axioms={})
    with Lock(os.path.join(VERIF, '.build.lock')):
        ok, out = regenerate(tmp)
        if not ok:
            res['ok'] = False
            res['failures'].append(('regenerate Fzf/Generated from ' + REPO, out[-4000:]))
        names = theorem_names(pid)
        res['obligations'] = names
        rc, out = run(['lake', 'build', 'Fzf.Props.' + pid, 'fzfmodel'], cwd=LEAN, timeout=3600)
        if rc != 0:
            res['ok'] = False
            errs = [l for l in out.split('\n') if 'error' in l.lower()]
            # which modules failed
            failed = re.findall(r'^- (\S+)', out, re.M)
            res['failures'].append(('lake build Fzf.Props.%s (failed targets: %s)' % (pid, ', '.join(failed) or '?'),
                                    '\n'.join(errs[:40]) + '\n...\n' + out[-3000:]))
        drv = os.path.join(LEAN, '.lake', 'build', 'bin', 'fzfmodel')
        if os.path.exists(drv) and not any('Driver' in f[0] or 'fzfmodel' in f[0] for f in res['failures']):
            dst = os.path.join(tmp, 'fzfmodel')
            shutil.copy(drv, dst)
            res['driver'] = dst
        if rc == 0:
            # axiom audit
            rc2, out2 = run(['lake', 'env', 'lean', os.path.join('Fzf', 'Audit', pid + '.lean')], cwd=LEAN, timeout=1200)
            flat = re.sub(r'\s+', ' ', out2)
            for n in names:
                m = re.search(r"'[\w.]*\.%s' (does not depend on any axioms|depends on axioms: \[([^\]]*)\])" % re.escape(n), flat)
                if not m:
                    res['ok'] = False
                    res['failures'].append(('axiom audit: %s not audited' % n, out2[-1500:]))
                    continue
                axs = set(a.strip() for a in (m.group(2) or '').split(',') if a.strip())
                res['axioms'][n] = sorted(axs)
                if axs - ALLOWED_AXIOMS:
                    res['ok'] = False
                    res['failures'].append(('axiom audit: %s uses %s' % (n, sorted(axs - ALLOWED_AXIOMS)), ''))
                else:
                    res['discharged'].append(n)
            hits = forbidden_scan()
            if hits:
                res['ok'] = False
                res['failures'].append(('forbidden construct in Lean sources', '\n'.join(hits[:20])))
            if tier == 'thorough':
                rc3, out3 = run(['lake', 'env', 'leanchecker', 'Fzf.Props.' + pid], cwd=LEAN, timeout=3600)
                res['leanchecker'] = 'ok' if rc3 == 0 else out3[-1500:]
                if rc3 != 0:
                    res['ok'] = False
                    res['failures'].append(('leanchecker Fzf.Props.' + pid, out3[-1500:]))
    return res


# --------------------------------------------------------------------------
# Side B: correspondence

def build_harness(tmp):
    shutil.copy(os.path.join(REPO, 'go.sum'), os.path.join(HARNESS, 'go.sum'))
    dst = os.path.join(tmp, 'harness')
    with Lock(os.path.join(VERIF, '.gobuild.lock')):
        rc, out = run(['go', 'build'] + modfile_args(tmp) + ['-tags', 'verif', '-o', dst, '.'], cwd=HARNESS, env=GOENV, timeout=1200)
    return (dst if rc == 0 else None), out


def build_fzf(tmp):
    dst = os.path.join(tmp, 'fzf')
    rc, out = run(['go', 'build', '-o', dst, '.'], cwd=REPO, env=GOENV, timeout=1200)
    return (dst if rc == 0 else None), out


class _M:
    def __init__(self, g):
        self.g = g

    def group(self, i):
        return self.g[i]


class _ResRe:
    @staticmethod
    def match(o):
        m = re.match(r'^(EQ|NE) (PASS|FAIL|NA) \| model=', o)
        if not m:
            return None
        rest = o[m.end():]
        tags = ''
        k = rest.rfind('| tags=')
        if k >= 0:
            tags = rest[k + 7:].strip()
            rest = rest[:k]
        k = rest.rfind(' |')
        model, why = (rest[:k], rest[k + 2:].strip()) if k >= 0 else (rest, '')
        # the reason never contains ' |' (driver guarantee); the model answer might
        k2 = rest.find(' | ')
        if k2 >= 0 and k2 != k:
            model, why = rest[:k2], rest[k2 + 3:].strip()
        return _M([o, m.group(1), m.group(2), model, why, tags])


RES_RE = _ResRe


DRIVER_PID = ['']
DRIVER_ENV = {}


def evaluate(driver, lines, timeout=3600):
    """Pipe protocol lines (with impl answers) into the Lean driver. Returns list of result dicts."""
    if not lines:
        return []
    pid = DRIVER_PID[0]
    p = subprocess.run([driver, pid], input=('\n'.join(lines) + '\n').encode(), stdout=subprocess.PIPE,
                       stderr=subprocess.PIPE, timeout=timeout, env=dict(os.environ, **DRIVER_ENV))
    outs = p.stdout.decode('utf-8', 'replace').split('\n')
    res = []
    for i, line in enumerate(lines):
        o = outs[i] if i < len(outs) else ''
        m = RES_RE.match(o)
        if not m:
            res.append(dict(case=line, eq=False, spec='NA', model='driver-crash:' + o[:200] + p.stderr.decode('utf-8', 'replace')[-300:], why='', tags=[]))
            continue
        spec, why = m.group(2), m.group(4) or ''
        if spec == 'FAIL' and why.startswith('[') and pid and ']' in why and pid not in why[1:why.index(']')].split(','):
            spec = 'PASS'   # a verdict about other properties only; their own checks report it
        res.append(dict(case=line, eq=m.group(1) == 'EQ', spec=spec, model=m.group(3), why=why,
                        tags=[t for t in (m.group(5) or '').split(',') if t]))
    return res


def scratch_cwd(harness):
    """The harness runs in a scratch directory next to its binary (inside the per-run temp dir):
    option parsing may create files named by option values (--history FILE)."""
    d = os.path.join(os.path.dirname(harness), 'cwd')
    os.makedirs(d, exist_ok=True)
    return d


def impl_eval(harness, case_lines, timeout=3600):
    """Run the implementation on case lines (answers stripped). A crash of the harness process
    itself is isolated by re-running the remaining cases one by one."""
    stripped = [l.split(' => ')[0] for l in case_lines]
    p = subprocess.run([harness, 'eval'], input=('\n'.join(stripped) + '\n').encode(), stdout=subprocess.PIPE,
                       stderr=subprocess.PIPE, timeout=timeout, env=dict(os.environ, GOMEMLIMIT='4GiB'),
                       cwd=scratch_cwd(harness))
    outs = [l for l in p.stdout.decode('utf-8', 'replace').split('\n') if l]
    if len(outs) == len(stripped):
        return outs
    done = outs[:]
    # the harness died on case len(outs)
    if len(outs) < len(stripped):
        done.append(stripped[len(outs)] + ' => crash:process-died')
        rest = stripped[len(outs) + 1:]
        if rest:
            done += impl_eval(harness, rest, timeout)
    return done


def gen_cases(harness, area, seed, count, timeout=7200):
    p = subprocess.run([harness, 'gen', area, str(seed), str(count)], stdout=subprocess.PIPE, stderr=subprocess.PIPE,
                       timeout=timeout, env=dict(os.environ, GOMEMLIMIT='4GiB'), cwd=scratch_cwd(harness))
    lines = [l for l in p.stdout.decode('utf-8', 'replace').split('\n') if l]
    err = p.stderr.decode('utf-8', 'replace')
    return lines, (p.returncode, err[-2000:])


# --------------------------------------------------------------------------
# Shrinking (delta debugging on protocol tokens)

def shrink_candidates(case):
    lhs = case.split(' => ')[0]
    toks = lhs.split(' ')
    for i in range(2, len(toks)):
        t = toks[i]
        for sep in ('/', '|', ','):
            if sep in t:
                parts = t.split(sep)
                # remove halves then single elements
                n = len(parts)
                chunks = []
                if n > 3:
                    chunks += [(0, n // 2), (n // 2, n)]
                if n > 7:
                    q = n // 4
                    chunks += [(k * q, (k + 1) * q) for k in range(4)]
                chunks += [(k, k + 1) for k in range(min(n, 60))]
                for a, b in chunks:
                    rest = parts[:a] + parts[b:]
                    if rest:
                        yield ' '.join(toks[:i] + [sep.join(rest)] + toks[i + 1:])
                break
        else:
            pass


def shrink(harness, driver, result, still_bad, max_rounds=40, budget_s=90.0):
    cur = result
    t_end = time.time() + budget_s
    for _ in range(max_rounds):
        if time.time() > t_end:
            break        # the unshrunk (or partly shrunk) case is as good a replay
        cands = list(dict.fromkeys(shrink_candidates(cur['case'])))[:400]
        if not cands:
            break
        try:
            lines = impl_eval(harness, cands, timeout=60)
            rs = evaluate(driver, lines, timeout=60)
        except Exception:
            break
        # a candidate counts only if it fails the way the original did: the same kind of verdict (the text
        # of the reason up to the first digit / brace) and no crash of the harness on a case the removal of
        # elements made malformed, unless the original was a crash
        def kind(r):
            return re.split(r'[0-9{(]', r.get('why') or '', 1)[0][:60]
        def crashed(r):
            return ' => crash:' in r['case'] or r.get('model', '').startswith('bad') or r.get('model', '').startswith('driver-crash')
        nxt = next((r for r in rs if still_bad(r) and len(r['case']) < len(cur['case']) and kind(r) == kind(result)
                    and (crashed(result) or not crashed(r))), None)
        if nxt is None:
            break
        cur = nxt
    return cur


# --------------------------------------------------------------------------
# Known findings

def load_findings(pid):
    p = os.path.join(VERIF, 'known_findings.json')
    if not os.path.exists(p):
        return []
    return [f for f in json.load(open(p)).get('findings', []) if pid in f['property'].split(',') and f.get('status') == 'known']


def finding_matches(f, r):
    m = f.get('match', {})
    lhs = r['case'].split(' => ')[0]
    toks = lhs.split(' ')
    if 'area' in m and toks[0] != m['area']:
        return False
    if 'op' in m and toks[1] not in (m['op'] if isinstance(m['op'], list) else [m['op']]):
        return False
    if 'case_regex' in m and not re.search(m['case_regex'], r['case']):
        return False
    if 'why_regex' in m and not re.search(m['why_regex'], r.get('why', '')):
        return False
    if 'pred' in m:
        from preds import PREDS
        if not PREDS[m['pred']](toks, r):
            return False
    return True


# --------------------------------------------------------------------------

def write_replay(pid, kind, body):
    d = os.path.join(VERIF, 'replays')
    os.makedirs(d, exist_ok=True)
    h = hashlib.sha1(json.dumps(body, sort_keys=True).encode()).hexdigest()[:10]
    p = os.path.join(d, '%s-%s-%s.json' % (pid, kind, h))
    json.dump(dict(property=pid, kind=kind, **body), open(p, 'w'), indent=1)
    return p


def main():
    ap = argparse.ArgumentParser()
    ap.add_argument('pid')
    ap.add_argument('--tier', default=os.environ.get('VERIF_TIER', 'quick'))
    ap.add_argument('--replay')
    ap.add_argument('--no-proofs', action='store_true', help='(debugging) skip the Lean build')
    args = ap.parse_args()
    pid, tier = args.pid, args.tier
    if tier not in ('quick', 'thorough'):
        tier = 'quick'
    cfg = PROPS[pid]
    seed = int(os.environ.get('VERIF_SEED', '1') or '1')
    t0 = time.time()
    tmp = tempfile.mkdtemp(prefix='verif-%s-' % pid)
    try:
        rc = check(pid, cfg, tier, seed, tmp, args, t0)
    finally:
        shutil.rmtree(tmp, ignore_errors=True)
    sys.exit(rc)


def check(pid, cfg, tier, seed, tmp, args, t0):
    violations = []   # list of (replay_path, suffix)
    known_lines = []
    notes = []

    # ---- Side A
    if args.no_proofs:
        pr = dict(ok=True, obligations=theorem_names(pid), discharged=theorem_names(pid), failures=[], axioms={},
                  driver=os.path.join(LEAN, '.lake', 'build', 'bin', 'fzfmodel'))
    else:
        pr = build_proofs(pid, tmp, tier)
    log('[%s] proofs: %d/%d obligations discharged%s' % (pid, len(pr['discharged']), len(pr['obligations']),
                                                         '' if pr['ok'] else '  (FAILURES: %s)' % '; '.join(f[0] for f in pr['failures'])))
    driver = pr['driver']

    # ---- Side B
    harness, hout = build_harness(tmp)
    broken = []  # (name, detail) broken obligations/correspondences
    broken += pr['failures']
    if harness is None:
        broken.append(('harness build (go build -tags verif against %s)' % REPO, hout[-3000:]))
    fzfbin = None
    if cfg.get('needs_fzf'):
        fzfbin, fout = build_fzf(tmp)
        if fzfbin is None:
            broken.append(('fzf build', fout[-3000:]))

    results = []
    gen_notes = []
    DRIVER_PID[0] = pid
    if harness:
        tbl = os.path.join(tmp, 'unicode.tbl')
        with open(tbl, 'wb') as f:
            subprocess.run([harness, 'unicode'], stdout=f, timeout=600)
        DRIVER_ENV['FZF_UNICODE'] = tbl
    if args.replay:
        rp = json.load(open(args.replay))
        if rp.get('kind') == 'failing-input' and harness and driver:
            if rp.get('proc') and fzfbin:
                import procs
                results = procs.replay(rp, dict(fzf=fzfbin, driver=driver, tmp=tmp, harness=harness))
            elif rp.get('case'):
                lines = impl_eval(harness, [rp['case']])
                results = evaluate(driver, lines)
        else:
            notes.append('replay of a broken-obligation file: re-running the full check')
            args.replay = None
    if not args.replay and harness and driver:
        # corpus first
        cdir = os.path.join(VERIF, 'corpus', pid)
        corpus = []
        if os.path.isdir(cdir):
            for f in sorted(os.listdir(cdir)):
                if f.endswith('.case'):
                    corpus += [l.strip() for l in open(os.path.join(cdir, f)) if l.strip() and not l.startswith('#')]
        if corpus:
            results += evaluate(driver, impl_eval(harness, corpus))
        jobs = []
        for area, nq, nt in cfg.get('areas', []):
            total = nq if tier == 'quick' else nt
            nshards = min(NCPU, max(1, total // 500))
            per = (total + nshards - 1) // nshards
            for k in range(nshards):
                jobs.append((area, seed * 1000 + k, per))

        def work(job):
            area, s, n = job
            lines, (rc, err) = gen_cases(harness, area, s, n)
            rs = evaluate(driver, lines) if lines else []
            return job, rs, rc, err
        with ThreadPoolExecutor(max_workers=NCPU) as ex:
            for job, rs, rc, err in ex.map(work, jobs):
                results += rs
                if rc != 0:
                    gen_notes.append('generator %s seed %d exited %d: %s' % (job[0], job[1], rc, err[-500:]))
                    broken.append(('harness run %s seed %d (exit %d)' % (job[0], job[1], rc), err[-1500:]))
        # process-level drivers
        if cfg.get('procs') and (fzfbin or not cfg.get('needs_fzf')):
            import procs
            for name in cfg['procs']:
                rs, pnotes = procs.run(name, tier, seed, dict(fzf=fzfbin, driver=driver, tmp=tmp, harness=harness, pid=pid))
                results += rs
                notes += pnotes
                # a driver that could not do its work is a correspondence that no longer checks, not a footnote
                for pn in pnotes:
                    if str(pn).startswith('BROKEN:'):
                        broken.append(('process-level driver %s' % name, str(pn)))

    # ---- verdict
    findings = load_findings(pid)
    # In-process cases that involve goroutines and time-outs (the matcher loop, concurrent loaders) can give a
    # verdict that depends on the load of the machine. As for the process-level drivers, a failing or
    # differing in-process case is believed only if it fails again when it is re-run alone, twice;
    # deterministic cases repeat identically.
    if harness and driver and not args.replay:
        suspects = [r for r in results if (r['spec'] == 'FAIL' or not r['eq']) and not r.get('proc')
                    and not any(finding_matches(f, r) for f in findings)]
        unrepeated = 0
        for r in suspects[:60]:
            again = []
            for _ in range(2):
                try:
                    rr = evaluate(driver, impl_eval(harness, [r['case']], timeout=300), timeout=300)
                except Exception:
                    rr = []
                again.append(rr[0] if rr else None)
            bad = [a for a in again if a is not None and (a['spec'] == 'FAIL' or not a['eq'])]
            if len(bad) < 2:
                ok = next((a for a in again if a is not None and a['spec'] != 'FAIL' and a['eq']), None)
                if ok is not None:
                    results[results.index(r)] = ok
                    unrepeated += 1
        if unrepeated:
            notes.append('%d in-process case(s) gave a verdict that did not repeat when re-run alone (time-out under load); the re-run is reported' % unrepeated)
    fails = [r for r in results if r['spec'] == 'FAIL']
    diffs = [r for r in results if not r['eq'] and r['spec'] != 'FAIL']
    seen_known = {}
    new_fails = []
    for r in fails:
        f = next((f for f in findings if finding_matches(f, r)), None)
        if f:
            if f['id'] not in seen_known or len(r['case']) < len(seen_known[f['id']][1]['case']):
                seen_known[f['id']] = (f, r)
        else:
            new_fails.append(r)
    for fid, (f, r) in seen_known.items():
        known_lines.append('KNOWN-FINDING: property=%s %s [%s] witness: %s' % (pid, f['what'], fid, r['case'][:300]))
    # diffs that coincide with a known finding's site are also attributed to it
    new_diffs = [r for r in diffs if not any(finding_matches(f, r) and f.get('covers_diff') for f in findings)]

    if new_fails:
        r0 = min(new_fails, key=lambda r: len(r['case']))
        unshrunk = r0
        if harness and driver and not r0.get('proc'):
            r0 = shrink(harness, driver, r0, lambda r: r['spec'] == 'FAIL' and not any(finding_matches(f, r) for f in findings))
        path = write_replay(pid, 'failing-input', dict(
            case=r0['case'], implementation_answer=r0['case'].split(' => ')[-1], model_answer=r0['model'],
            spec_verdict=r0['why'], proc=r0.get('proc'), how='bin/check %s --replay <this file>' % pid,
            original_case=unshrunk['case'][:2000000] if unshrunk is not r0 else None, original_verdict=unshrunk['why'],
            others=[r['case'][:500] for r in new_fails[:5]], count=len(new_fails)))
        violations.append((path, ''))
    elif new_diffs or broken:
        # something no longer checks; look for a failing input was already done above (spec on every case)
        body = dict(broken=[dict(name=n, detail=d) for n, d in broken],
                    correspondence_differences=[dict(case=r['case'][:200000], model=r['model'][:20000]) for r in
                                                sorted(new_diffs, key=lambda r: len(r['case']))[:5]],
                    n_differences=len(new_diffs),
                    searched='%d cases evaluated against the executable specification, none failed' % len(results))
        if new_diffs and harness and driver and not new_diffs[0].get('proc'):
            r0 = shrink(harness, driver, min(new_diffs, key=lambda r: len(r['case'])), lambda r: not r['eq'])
            body['shrunk_difference'] = dict(case=r0['case'], model=r0['model'])
        what = []
        if broken:
            what.append('broken: ' + '; '.join(n for n, _ in broken))
        if new_diffs:
            what.append('correspondence model-vs-implementation differs on %d cases' % len(new_diffs))
        body['what'] = ' | '.join(what)
        path = write_replay(pid, 'broken-obligation', body)
        violations.append((path, ' no-failing-input-found'))

    # ---- evidence
    distinct_nt = len(set(r['case'] for r in results if 'nt' in r['tags']))
    tagdist = {}
    for r in results:
        for t in r['tags']:
            tagdist[t] = tagdist.get(t, 0) + 1
    samples = [r['case'][:400] for r in results[:2]] + [r['case'][:400] for r in results if 'nt' in r['tags']][:3]
    ev = dict(
        property_id=pid, tier=tier, seed=seed, level='proof',
        coverage=dict(
            obligations=max(1, len(pr['obligations'])), discharged=len(pr['discharged']),
            checker_cmd='cd lean && lake build Fzf.Props.%s && lake env lean Fzf/Audit/%s.lean%s' % (
                pid, pid, ' && lake env leanchecker Fzf.Props.%s' % pid if tier == 'thorough' else ''),
            trusted_base=['Lean 4.33 kernel', 'axioms: ' + ', '.join(sorted(set(a for v in pr['axioms'].values() for a in v)) or ['none']),
                          'hand-written Lean model tied to /repo by the correspondence run below',
                          'harness/ + /repo/src/**/verif_hooks.go (thin wrappers)'] + cfg.get('trusted', []),
            theorems=pr['obligations'], axioms=pr['axioms'],
            evaluations=len(results), distinct_nontrivial=distinct_nt,
            rule=cfg.get('rule', ''), samples=samples or ['(no cases: build failed)'],
            tag_distribution=tagdist,
            correspondence=dict(cases=len(results), equal=sum(1 for r in results if r['eq']),
                                spec_pass=sum(1 for r in results if r['spec'] == 'PASS'),
                                spec_fail=len(fails), spec_na=sum(1 for r in results if r['spec'] == 'NA')),
            known_findings_seen=sorted(seen_known), notes=notes + gen_notes,
            leanchecker=pr.get('leanchecker', 'not run (quick tier)'),
        ),
        assumptions=cfg.get('assumptions', []),
        wall_s=round(time.time() - t0, 2), violations=len(violations))
    # evidence/<id>.json describes runs against /repo itself; a run against another tree (VERIF_REPO,
    # used to try seeded changes) is recorded apart and never committed
    evdir = 'evidence' if os.path.realpath(REPO) == '/repo' else os.path.join('replays', 'evidence-other-tree')
    os.makedirs(os.path.join(VERIF, evdir), exist_ok=True)
    json.dump(ev, open(os.path.join(VERIF, evdir, pid + '.json'), 'w'), indent=1)

    for l in known_lines:
        print(l)
    for f in findings:
        if f['id'] not in seen_known and not args.replay:
            print('NOTE: known finding %s of %s was not reproduced in this run (stale entry or not sampled)' % (f['id'], pid))
    log('[%s] %s tier, seed %d: %d cases, %d equal, %d spec-fail (%d known), %d diffs, %.1fs' % (
        pid, tier, seed, len(results), sum(1 for r in results if r['eq']), len(fails), len(fails) - len(new_fails), len(new_diffs), time.time() - t0))
    for path, suffix in violations:
        print('VIOLATION property=%s replay=%s%s' % (pid, path, suffix))
    return 1 if violations else 0
