"""C08 end to end: the real fzf in a private tmux server, fed by a producer that writes its input in
bursts, while query edits, sort toggles, nth changes and reloads arrive over --listen with random
delays. When everything has gone quiet the match list (GET /?limit=...) must be what the Filter
model computes for the current query over the loaded input."""
import json, os, random, shutil, tempfile, time
from concurrent.futures import ThreadPoolExecutor

import procs
from procs import Session, enc_bytes, enc_strlist

VOCAB = ['foo', 'bar', 'baz', 'qux', 'Foo', 'fob', 'ofo', 'a b', 'ab', 'ba', 'x y', 'src', 'main.go', 'café', 'cafe', 'FOO',
         'alpha', 'beta', 'gamma', 'one', 'two', '42', '7', 'z-z', 'q_q']
QUERIES = ['f', 'fo', 'foo', 'foob', 'o', 'oo', 'Fo', 'a', 'a b', 'ab', 'ba', 'b', 'ca', 'caf', 'cafe', 'café', "'fo", '^fo', 'o$',
           'foo !bar', 'foo | bar', '!a', 'x', 'zz', '', 'al', 'alp', 'ga ma', '4', '42']


def gen_lines(r, n):
    out = []
    for _ in range(n):
        k = r.random()
        if k < 0.5:
            out.append('%s %s %d' % (r.choice(VOCAB), r.choice(VOCAB), r.randrange(100)))
        elif k < 0.8:
            out.append('%s/%s' % (r.choice(VOCAB), r.choice(VOCAB)))
        else:
            out.append('%d %s' % (r.randrange(1000), r.choice(VOCAB)))
    return out


def gen_conv(r, tier):
    nA = r.choice([30, 150, 450, 1200] + ([3000] if tier != 'quick' else []))
    nB = r.choice([20, nA, nA, 150])
    sc = dict(A=gen_lines(r, nA), B=gen_lines(r, nB), exact=r.random() < 0.2, sort=r.random() < 0.75, tac=r.random() < 0.25,
              nth=r.choice(['-', '-', '-', '1', '2', '2..']))
    # producer: bursts of lines with pauses (ms)
    bursts, left = [], nA
    while left > 0:
        k = min(left, r.choice([1, 7, 50, 100, 101, 250, nA]))
        bursts.append((k, r.choice([0, 0, 5, 20, 60])))
        left -= k
    sc['bursts'] = bursts
    steps = []
    for _ in range(r.randrange(2, 12)):
        k = r.random()
        if k < 0.45:
            a = ('change-query', r.choice(QUERIES))
        elif k < 0.6:
            a = ('put', r.choice(['o', 'a', 'b', ' ', 'f']))
        elif k < 0.7:
            a = ('backward-delete-char', None)
        elif k < 0.75:
            a = ('clear-query', None)
        elif k < 0.85:
            a = ('toggle-sort', None)
        elif k < 0.91:
            a = ('change-nth', r.choice(['1', '2', '2..', '']))
        elif k < 0.97:
            a = ('reload', None)
        else:
            a = ('reload-sync', None)
        steps.append((r.choice([0, 0, 2, 10, 30, 80]), a))
    sc['steps'] = steps
    sc['excludes'] = r.choice([0, 0, 1, 2])
    return sc


def gen_conv_nth(r, tier):
    """Directed: a query under one --nth, then change-nth, then another query — every item has been
    tokenised for the old field expression when the new one takes effect."""
    nA = r.choice([150, 250, 450] + ([1200] if tier != 'quick' else []))
    nth0, nth1 = r.choice([('1', '2'), ('2', '1'), ('2..', '1'), ('1', '2..'), ('-', '2'), ('-1', '1')])
    sc = dict(A=gen_lines(r, nA), B=gen_lines(r, 20), exact=r.random() < 0.2, sort=r.random() < 0.75, tac=False, nth=nth0,
              bursts=[(nA, 0)], excludes=0)
    q1, q2 = r.choice(['f', 'a', 'b', 'o', 'ba', '4']), r.choice(['f', 'fo', 'a', 'b', 'o', 'ba', 'ab', '4', 'al'])
    steps = [(30, ('change-query', q1)), (r.choice([60, 120, 200]), ('change-nth', nth1)), (r.choice([0, 30, 100]), ('change-query', q2))]
    if r.random() < 0.5:
        steps.append((r.choice([30, 100]), ('change-nth', r.choice(['1', '2', '']))))
        steps.append((r.choice([0, 50]), r.choice([('put', 'o'), ('backward-delete-char', None), ('change-query', q1)])))
    sc['steps'] = steps
    return sc


def gen_conv_exclude(r, tier):
    """Directed: an input of full chunks in which matches are rare (the per-chunk result cache engages),
    a plain cacheable query, then exclusions of the current item."""
    nA = r.choice([200, 300] + ([1000] if tier != 'quick' else []))
    rare = ['foo', 'Foo', 'fob', 'ofo', 'foobar', 'barfoo', 'ba', 'bar x', 'oof']
    lines = []
    for _ in range(nA):
        lines.append(r.choice(rare) + r.choice(['', ' 1', '/y']) if r.random() < 0.08 else '%s%d' % (r.choice(['x', 'yz', 'q-', 'z z']), r.randrange(1000)))
    sc = dict(A=lines, B=gen_lines(r, 20), exact=False, sort=True, tac=False, nth='-', bursts=[(nA, 0)], excludes=r.choice([1, 2, 3]))
    q = r.choice(['foo', 'fo', 'ba', 'bar', 'oo'])
    sc['steps'] = [(50, ('change-query', q))] + ([(80, ('change-query', q[:-1])), (80, ('change-query', q))] if r.random() < 0.5 else [])
    return sc


def gen_conv_hdr(r, tier):
    """Directed: --header-lines=N with one or two reloads: the first N records of EVERY stream are header
    lines, never items."""
    nA = r.choice([5, 12, 40, 150])
    sc = dict(A=gen_lines(r, nA), B=gen_lines(r, r.choice([4, 9, 30, 120])), exact=False, sort=r.random() < 0.7, tac=r.random() < 0.2, nth='-',
              bursts=[(nA, 0)], excludes=0, hdr=r.choice([1, 2, 3]))
    steps = []
    if r.random() < 0.5:
        steps.append((30, ('change-query', r.choice(['a', 'o', 'f', '']))))
    steps.append((r.choice([50, 150]), (r.choice(['reload', 'reload', 'reload-sync']), None)))
    if r.random() < 0.4:
        steps.append((r.choice([80, 200]), ('reload', None)))
    if r.random() < 0.5:
        steps.append((r.choice([0, 60]), ('change-query', r.choice(['a', 'o', 'b', '']))))
    sc['steps'] = steps
    return sc


def enc_step(s):
    d, (name, arg) = s
    return '%d:%s%s' % (d, name, '' if arg is None else '=' + ('.'.join(str(x) for x in arg.encode()) or 'e'))


def dec_step(t):
    d, rest = t.split(':', 1)
    if '=' in rest:
        name, arg = rest.split('=', 1)
        arg = '' if arg == 'e' else bytes(int(x) for x in arg.split('.')).decode('utf-8', 'replace')
    else:
        name, arg = rest, None
    return int(d), (name, arg)


def sc_to_setup(sc):
    return '%d,%d,%d,%s|%s|%s|%d' % (sc['exact'], sc['sort'], sc['tac'], sc['nth'],
                                    ';'.join('%d.%d' % b for b in sc['bursts']), ';'.join(enc_step(s) for s in sc['steps']) or '_',
                                    sc['excludes']) + ('|h%d' % sc['hdr'] if sc.get('hdr') else '')


def setup_to_sc(setup, A, B):
    fields = setup.split('|')
    o, bursts, steps, ex = fields[:4]
    hdr = int(fields[4][1:]) if len(fields) > 4 else 0
    e, s, t, nth = o.split(',')
    return dict(hdr=hdr, A=A, B=B, exact=e == '1', sort=s == '1', tac=t == '1', nth=nth,
                bursts=[tuple(int(x) for x in b.split('.')) for b in bursts.split(';')],
                steps=[] if steps == '_' else [dec_step(x) for x in steps.split(';')], excludes=int(ex))


def run_conv(fzf, tmp, sc):
    """Returns the protocol line `matcher conv ... => ...` (or None, reason)."""
    d = tempfile.mkdtemp(prefix='conv-', dir=tmp)
    try:
        fa, fb, prod = os.path.join(d, 'A'), os.path.join(d, 'B'), os.path.join(d, 'prod.sh')
        open(fa, 'w').write(''.join(l + '\n' for l in sc['A']))
        open(fb, 'w').write(''.join(l + '\n' for l in sc['B']))
        with open(prod, 'w') as f:
            pos = 1
            for k, ms in sc['bursts']:
                f.write("sed -n '%d,%dp' '%s'\n" % (pos, pos + k - 1, fa))
                if ms:
                    f.write('sleep %.3f\n' % (ms / 1000.0))
                pos += k
        args = []
        if sc['exact']:
            args.append('--exact')
        if not sc['sort']:
            args.append('--no-sort')
        if sc['tac']:
            args.append('--tac')
        if sc['nth'] != '-':
            args += ['--nth', sc['nth']]
        if sc.get('hdr'):
            args.append('--header-lines=%d' % sc['hdr'])
        s = Session(fzf, args, [], tmp, input_cmd="sh '%s'" % prod)
        try:
            if s.wait_ready() is None:
                return None, 'fzf did not start'
            loaded, sort, nth = 'A', sc['sort'], sc['nth']
            for delay, (name, arg) in sc['steps']:
                if delay:
                    time.sleep(delay / 1000.0)
                if name == 'reload' or name == 'reload-sync':
                    act = "%s(cat '%s')" % (name, fb)
                    loaded = 'B'
                elif name == 'change-nth':
                    act = 'change-nth(%s)' % arg
                    nth = arg if arg else sc['nth']     # an empty argument restores the original --nth
                elif arg is not None:
                    act = '%s(%s)' % (name, arg)
                else:
                    act = name
                    if name == 'toggle-sort':
                        sort = not sort
                if not s.post(act):
                    return None, 'POST failed'
            st = s.settle(tries=400, delay=0.02)
            # "nothing pending" is not observable from outside: the coordinator sleeps up to 100 ms between
            # rounds while input is arriving, and a reload-sync publishes its list only when its command has
            # ended. Quiescence = the same state twice, 350 ms apart.
            for _ in range(20):
                if st is None:
                    break
                time.sleep(0.35)
                st2 = s.settle(tries=100, delay=0.02)
                if st2 is not None and json.dumps(st2, sort_keys=True) == json.dumps(st, sort_keys=True):
                    break
                st = st2
            if st is None or st.get('reading'):
                return None, 'never became quiescent'
            excluded = []
            for _ in range(sc['excludes']):
                cur = st.get('current')
                if not cur:
                    break
                excluded.append(cur['index'])
                want_mc = st['matchCount'] - 1
                s.post('exclude')
                st = s.settle(tries=200, delay=0.02, want=lambda c: c['matchCount'] == want_mc)
                if st is None:
                    return None, 'lost after exclude'
            time.sleep(0.05)
            final = json.loads(s._req_path('/?limit=1000000').decode('utf-8', 'replace'))
            lines = sc[loaded][sc.get('hdr', 0):]      # the first --header-lines records of the loaded stream are not items
            lhs = 'matcher conv %d %d %d %s %s %s %s %s' % (sc['exact'], sort, sc['tac'], nth if nth else '-', enc_bytes(final['query'].encode()),
                                                         ','.join(str(x) for x in excluded) or '-', enc_strlist([l.encode() for l in lines]),
                                                         sc_to_setup(sc))
            idx = ','.join(str(m['index']) for m in final['matches']) or '-'
            return lhs + ' => %d %d %s %d' % (final['matchCount'], final['totalCount'], idx, final['sort']), dict(loaded=loaded)
        finally:
            s.post('abort')
            s.wait_exit(1.0)
            s.close()
    finally:
        shutil.rmtree(d, ignore_errors=True)


def _work(ctx, sc):
    try:
        return run_conv(ctx['fzf'], ctx['tmp'], sc)
    except Exception as e:
        return None, 'driver error: %r' % (e,)


def drv_conv(tier, seed, ctx):
    from vcheck import evaluate
    n = 30 if tier == 'quick' else 500
    r = random.Random(seed * 15485863 + 3)
    if ctx.get('pid') == 'C06':
        # every record of every stream becomes one item, except the header lines of that stream
        n = 8 if tier == 'quick' else 120
        scs = [gen_conv_hdr(r, tier) for _ in range(n)]
    elif ctx.get('pid') == 'C05':
        # matching as a function of (line, query, options) only: the directed field-scope histories
        n = 10 if tier == 'quick' else 150
        scs = [gen_conv_nth(r, tier) for _ in range(n)]
    else:
        scs = [gen_conv_nth(r, tier) if i < 4 or i % 12 == 0 else gen_conv_exclude(r, tier) if i < 8 or i % 12 == 1 else gen_conv_hdr(r, tier) if i < 11 or i % 12 == 2 else gen_conv(r, tier) for i in range(n)]
    notes = []
    with ThreadPoolExecutor(max_workers=8) as ex:
        outs = list(ex.map(lambda sc: _work(ctx, sc), scs))
    lines, kept = [], []
    undriven = 0
    for (line, info), sc in zip(outs, scs):
        if line is None:
            undriven += 1
            if len(notes) < 2:
                notes.append(str(info))
        else:
            lines.append(line)
            kept.append(sc)
    rs = evaluate(ctx['driver'], lines)
    # timing-dependent verdicts are believed only when the same scenario gives them again (twice)
    out, flaky = [], 0
    for res, sc in zip(rs, kept):
        if res['eq'] and res['spec'] != 'FAIL':
            out.append(res)
            continue
        again = []
        for _ in range(2):
            line, _ = _work(ctx, sc)
            rr = evaluate(ctx['driver'], [line]) if line else []
            again.append(rr[0] if rr else None)
        same = [a for a in again if a is not None and (not a['eq'] or a['spec'] == 'FAIL')]
        if len(same) == 2:
            out.append(res)
        else:
            flaky += 1
            ok = next((a for a in again if a is not None and a['eq'] and a['spec'] != 'FAIL'), None)
            if ok:
                out.append(ok)
    if flaky:
        notes.append('%d scenario(s) gave a verdict that did not repeat when re-run (timing); the re-run is reported' % flaky)
    if undriven:
        notes.append('%d of %d scenarios could not be driven to quiescence' % (undriven, n))
    by_case = {l: sc for l, sc in zip(lines, kept)}
    for res in out:
        sc = by_case.get(res['case'])
        res['proc'] = dict(kind='tmux-conv', scenario=sc)
    return out, notes


def replay(rp, ctx):
    from vcheck import evaluate
    sc = (rp.get('proc') or {}).get('scenario')
    if not sc:
        lhs = rp['case'].split(' => ')[0]
        toks = lhs.split(' ')
        dec = lambda s: [] if s == '_' else [bytes(int(x) for x in l.split(',')).decode('utf-8', 'replace') if l != '-' else '' for l in s.split('|')]
        loaded = dec(toks[8])
        # the case line carries only the loaded input; both inputs are that one then
        sc = setup_to_sc(toks[9], loaded, loaded)
        if sc.get('hdr'):
            # the case line holds the items only: put header lines back in front of both streams
            hs = ['header %d' % i for i in range(sc['hdr'])]
            sc['A'], sc['B'] = hs + sc['A'], hs + sc['B']
    sc['steps'] = [(d, tuple(a)) for d, a in sc['steps']]
    sc['bursts'] = [tuple(b) for b in sc['bursts']]
    line, _ = _work(ctx, sc)
    return evaluate(ctx['driver'], [line]) if line else []


procs.DRIVERS['conv'] = drv_conv
