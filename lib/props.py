"""Per-property configuration of bin/check: which harness areas / process drivers
validate the model and search for failing inputs, and how many cases per tier."""

PROPS = {
    'C18': dict(
        level_text='Lean 4 theorems over a hand-written model of src/history.go (file contents after any sequence of '
                   'sessions, cursor range, slot-editor refinement, edits never persisted), tied to /repo by an in-process '
                   'differential run of the model and the real History type on seeded sessions; the executable spec is '
                   'evaluated on the implementation answers.',
        level_note='Trusted: Lean kernel; axioms propext/Classical.choice/Quot.sound; the correspondence harness and verif '
                   'hooks; os file I/O. Queries containing a newline are outside the quantifier.',
        technique='Lean 4 proof (induction over sessions, refinement to a slot editor) + model/implementation correspondence',
        areas=[('hist', 3000, 400000)],
        rule='seeded sessions (initial file: missing/empty/with+without trailing newline/over the limit; '
             'navs: prev/next/edit; submit or not); non-trivial = the session moves through at least one stored '
             'entry after an edit and submits a non-empty line; distinct = distinct case lines',
        trusted=['os.ReadFile/os.WriteFile', 'terminal.go glue (trimQuery, when append is called) is covered by the tmux driver only'],
        assumptions=['submitted queries contain no newline (outside the property quantifier)'],
    ),
}

# Reasons for properties that are not claimed (MANIFEST.not_applicable); default: not built yet.
NOT_CLAIMED = {}
