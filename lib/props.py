"""Per-property configuration of bin/check: which harness areas / process drivers
validate the model and search for failing inputs, and how many cases per tier."""

ALGO_RULE = ('seeded (text, pattern, flags, slab state, representation) cases over an alphabet touching every character '
             'class incl. cased-but-not-upper, accented, wide and space runes; patterns mostly sampled from the text; '
             'texts 0..72000 runes, patterns 0..330; non-trivial = a match of a pattern of length >= 2 in a longer text; '
             'distinct = distinct case lines')
ALGO_TRUST = ['Go unicode tables (dumped from the runtime on every run and used as the model oracle)',
              'the functional model (Model/Algo.lean), the array-faithful slab model (Model/AlgoSlab.lean) and the '
              'implementation are compared case by case; only the generic slab lemma and the listed theorems are proved']

PAT_RULE = ('queries rendered from generated ASTs (all six term kinds x negation x OR groups x mixed case x accents x escaped '
            'spaces; texts sampled from the lines so that matches are common) plus raw strings of syntax characters; '
            'lists of 0..8 lines (filter area also 99..3201 lines so that 0, 1 and many chunks / partitions occur); '
            'all combinations of --exact / --no-extended / case mode / --literal / --algo / --no-sort / --tac / --nth / '
            '--with-nth / --delimiter / --tail / --header-lines / --tiebreak / --scheme; non-trivial = a query with an OR '
            'group, a negation or >= 2 groups over a list with both matching and non-matching lines; distinct = distinct case lines')

PROPS = {
    'C01': dict(
        areas=[('pat', 10000, 1500000), ('filter', 6000, 600000)],
        rule=PAT_RULE + '; terms also as the accent-free lower-case spelling of text cut from a line',
        trusted=['Go unicode tables (dumped per run)', 'in-process fzf.Run bypasses the byte-level reader (C06 covers it)',
                 'term-level matching is judged by the C02 oracle (Query.sat uses isSubseq / occurrences, not the matchers)'],
        level_text='Lean 4 theorem for every pattern, line and match-function behaviour: an extended pattern matches iff every '
                   'group has a term matching with the right polarity (AND of OR with negation), given the match functions '
                   'return; for every well-formed query (groups of |-separated terms of all six kinds, negated or not, texts '
                   'with escaped spaces), in fuzzy and --exact mode, under every case mode and with or without --literal, '
                   'parseTerms(render q) is exactly the documented term list (kind, polarity, per-term smart-case, per-term '
                   'normalisation), under a hypothesis on the Unicode tables that is checked on the dumped table in every '
                   'run. parseTerms / BuildPattern / MatchItem and whole filter-mode runs (in-process fzf.Run) are compared '
                   'with the model; the declarative Query.sat over the generated AST decides which lines must be printed.',
        level_note='Partial: term-level soundness/completeness of the six match functions is proved for fuzzy (V1), prefix, '
                   'suffix and equal terms under C02 and checked per case for exact / boundary / V2. Trusted: Lean kernel, standard axioms, harness, Go unicode tables.',
        technique='Lean 4 proof (AND/OR/negation semantics by induction over term sets) + model/implementation correspondence with a declarative query oracle',
    ),
    'C04': dict(
        areas=[('rank', 10000, 1500000), ('filter', 6000, 600000), ('matcher', 500, 30000)],
        rule=PAT_RULE + '; rank area: seeded rank quadruples (extremes 0/65535, ties), locally sorted lists probed at random '
             'and sequential positions, chunk-list scripts (pushes, snapshots with/without --tail, pass-through probes), '
             'partition counts 1..40 over 0..300 chunks',
        trusted=['sort.Sort returns a permutation sorted w.r.t. Less (the order is a strict total order on distinct items, so '
                 'the result is unique)', 'Go unicode tables'],
        level_text='Lean 4 theorems: the packed uint64 comparison equals the generic lexicographic one for all uint16 '
                   'quadruples; it is a strict total order on distinct items (asymmetric-total, transitive) with and without '
                   '--tac; worker slices partition the snapshot for every chunk and partition count; the lazy k-way merge of the '
                   'workers\' sorted lists yields, for any number and lengths of lists, a rank-ordered permutation of all results, '
                   'and stopping after k rounds gives exactly its first k elements (Get(i) independent of earlier requests); '
                   'pass-through Get(i) is the i-th loaded item (reversed under --tac) for every chunk layout with a partial first '
                   'chunk; util.AsUint16 as translated from the source is the clamp of the model. Merger.Get under arbitrary '
                   'probe orders, PassMerger over --tail-trimmed chunk layouts, buildResult and whole filter runs are compared '
                   'with the model and judged against "the i-th element of the one sorted permutation".',
        level_note='Partial: lazy merge = sort and pass-through index arithmetic for ALL layouts are checked per case, not yet '
                   'theorems. Worker scheduling is not modelled (results are joined by slice index).',
        technique='Lean 4 proof (order theorems by omega, slicing by induction) + model/implementation correspondence',
    ),
    'C08': dict(
        areas=[('matcher', 600, 40000)],
        procs=['conv'], needs_fzf=True,
        rule='conv: the real fzf in a private tmux server fed by a producer writing 30..3000 lines in bursts with pauses, while '
             '2..11 actions (change-query, put, backward-delete-char, clear-query, toggle-sort, change-nth, reload, reload-sync) '
             'arrive over --listen 0..80 ms apart, then 0..2 excludes; at quiescence GET /?limit= is compared with the Filter '
             'model over the loaded input (30 sessions quick, 500 thorough; a non-passing session is re-run twice and believed '
             'only if it repeats). matcher area: histories of 4..14 requests served by the real Matcher.Loop sharing one chunk cache, pattern cache '
             'and merger cache (query chains that extend / shrink / change case / add inverse, OR, exact and anchored terms; '
             'sort toggles; a reload to a second input under a new major revision; loading progress to chunk boundaries and to '
             'the size of the old input; inputs of 100..500 lines in which matching lines are rare enough for the per-chunk '
             'cache to engage); two or three requests pending at once in both mailbox slots; searches while a loader goroutine '
             'is pushing',
        trusted=['sort.Sort', 'Go unicode tables', 'core.go / terminal.go glue that turns events into Reset calls is exercised '
                 'by the interactive driver only'],
        level_text='Lean 4 theorems: of any sequence of retry/reset requests posted while the matcher is busy, the next one '
                   'served is the last one posted; the per-chunk query cache (exact hit, prefix/suffix narrowing, insertion) '
                   'returns for every history of patterns exactly the chunk\'s items matching each pattern, for every pattern '
                   'family satisfying key-determinacy and narrowing-monotonicity (proved for fuzzy and exact terms); the '
                   'Loop\'s merger cache answers every request, final or not, with a scan of its own snapshot, pattern and sort '
                   'flag whenever two snapshots of one revision with the same count hold the same items (which C13 proves of '
                   'the chunk list and the coordinator\'s revision rule). The models are tied to /repo by running the same '
                   'histories (fuzzy and exact mode, with --tail, with reloads) through the real Matcher.',
        level_note='Partial: narrowing-monotonicity is proved per term under fixed case/normalisation flags, and checked per '
                   'case for mixed flags; reader/terminal/coordinator timing is sampled by the interactive driver, not '
                   'enumerated. The stale merger-cache hit after a reload that an earlier version of the model reproduced '
                   '(finding F32) is repaired in /repo and is now excluded by the theorem.',
        technique='Lean 4 proof (mailbox invariant, cache invariants by induction over histories) + model/implementation '
                  'correspondence on request histories',
    ),
    'C20': dict(
        areas=[],
        procs=['preview'], needs_fzf=True,
        rule='preview: the real fzf in a private tmux server with a --preview command that logs pid, line and query of every '
             'invocation and then runs for a line-specific time (instant, 0.15 s, 0.4 s, incremental output, never-ending); '
             'templates with {}, {q}, {+}, {f}; 2..13 actions (cursor moves incl. two in one request, change-query, toggles, '
             'refresh-preview, toggle-preview) 0..150 ms apart; the number of live preview processes is sampled after every '
             'action; at quiescence (state and log stable for 0.75 s; 2 s more when not caught up) the last logged invocation, '
             'the preview pane, and after the session the process table and $TMPDIR are observed (24 sessions quick, 400 thorough)'
             '; sessions whose input arrives in two parts under --tail with {+} in the template: selected lines are trimmed away while the cursor rests; the selection the last command ran with must be the one fzf reports at rest'
             '; commands that stay silent beyond the "Loading .." delay and then print several lines',
        trusted=['tmux as terminal emulator', '/proc as process table', 'the schedules actually produced (the theorems quantify '
                 'over all traces of the model, the sessions sample schedules of the implementation)'],
        level_text='Lean 4 theorems over a transition-system model of the previewer (mailbox holding only the latest request, '
                   'one command at a time, watcher goroutine with droppable cancel tokens and mailbox polling, version counter, '
                   'display requests): along every trace the invocation log is strictly increasing in request number; at '
                   'quiescence the last command run is the one for the latest request and the display request last handed to '
                   'the render loop carries its complete output under the current version; in every reachable state a '
                   'superseded command can be marked to be killed; and a machine-checked witness that without the polling '
                   'transition a cancel sent too early is lost for good (finding F20, repaired). The model is tied to /repo '
                   'by interactive sessions judged against those guarantees.',
        level_note='Partial: the previewer is embedded in Terminal.Loop and cannot be driven in-process, so the tie is by '
                   'observation of sampled schedules (log, process table, pane), not a step-by-step correspondence; process '
                   'groups, pipes and signals are the operating system\'s.',
        technique='Lean 4 proof (LTS invariant over all traces, reachability of the kill, negative witness) + interactive '
                  'sessions against the real binary judged by the model\'s guarantees',
    ),
    'C13': dict(
        areas=[('matcher', 300, 20000), ('rank', 3000, 300000), ('reader', 3000, 300000)],
        procs=['race'],
        rule='matcher area: real Matcher over 3..3000 generated lines; scans with 1..32 partitions with a reset posted before / '
             'concurrently with the scan; searches through Matcher.Loop while a loader goroutine is pushing (snapshot counts '
             'are whatever the schedule produced; each published result is judged against the model filter of exactly that '
             'prefix, and the snapshot is re-read after the search); rank area: chunk-list scripts re-reading every snapshot '
             'after later pushes and snapshots (with and without --tail). matcher histo: request histories with --tail '
             '(Snapshot trims inside and across chunks; its changed result and the snapshot contents are compared with the '
             'heap model; every request, final or not, must be answered with the filter of its own snapshot). race: the '
             'same concurrent cases in a harness built with -race'
             '; the scripted-reader cases of C06 (an item that has been handed over never changes)',
        trusted=['Go memory model / race detector for the race driver', 'sort.Sort', 'Go unicode tables',
                 'the schedules actually produced by the Go runtime (the theorems quantify over all traces of the model, the '
                 'runs sample schedules of the implementation)'],
        level_text='Lean 4 theorems over a heap model of the chunk list (cells shared between the live list and snapshots): a '
                   'snapshot taken at any reachable moment, with or without --tail, reads the same after every later history '
                   'of pushes and snapshots; without --tail it holds exactly the items pushed before it, in order, with --tail N '
                   'exactly the last N items the list held; Snapshot reports changed if and only if the list holds other items '
                   'afterwards; with the revision bumped on changed, two snapshots of one revision with equal counts hold the '
                   'same items (the hypothesis under which the merger cache is proved transparent for every request); reported '
                   'counts equal sizes. Over a transition-system model of scan\'s cancellation protocol (workers, cancelled '
                   'flag, count channel, result channel, newer request observed after any count): along every trace a '
                   'returned result is the complete result of every slice and a cancelled scan returns nothing. The models '
                   'are tied to /repo by in-process runs of ChunkList, Matcher.scan and Matcher.Loop (incl. a concurrent '
                   'loader) and by the Go race detector over those runs.',
        level_note='Partial: the interleavings of the real goroutines are sampled, not enumerated; absence of data races is '
                   'the race detector\'s verdict on the executed schedules, not a theorem. The scan model does not prove '
                   'termination (every worker eventually delivers).',
        technique='Lean 4 proof (heap-model invariant by induction over histories; LTS invariant over all traces) + '
                  'model/implementation correspondence incl. concurrent runs under the Go race detector',
    ),
    'C02': dict(
        areas=[('algo', 20000, 3000000)],
        rule=ALGO_RULE, trusted=ALGO_TRUST,
        level_text='Lean 4 theorems, for all texts and patterns of any length: PrefixMatch, SuffixMatch and EqualMatch are total (no index '
                   'out of range), sound and complete — a match is reported exactly when the term occurs after the documented '
                   'whitespace trimming, and the reported range is that occurrence; ExactMatchNaive and ExactMatchBoundary are total '
                   'and sound in both scan directions (the reported range is an occurrence of the term), and ExactMatchNaive is '
                   'complete in fzf\'s three schemes (no match reported only if the term occurs nowhere: pre-filter, restart after '
                   'a partial match and the iteration bound lose nothing); FuzzyMatchV1 reports a match exactly when the '
                   'pattern is a subsequence of the folded text, in both scan directions, for byte and rune representation; the ASCII '
                   'pre-filter shared by the fuzzy and exact matchers never rejects a text that contains the pattern; calculateScore '
                   'never indexes out of range on the ranges these matchers pass; the witness judgement applied to every '
                   'implementation answer is List.Sublist / a position-wise embedding; the slab guard keeps int16 cells in range for '
                   'the regenerated slab size; a successful checked run of the array-faithful V2 model implies the raw run cannot '
                   'panic. The models of all seven match functions are tied to /repo by an in-process differential run; the '
                   'executable spec (witness, occurrence, anchors with documented trimming; brute-force non-existence) judges every '
                   'answer, which is what decides V2 and the boundary conditions of ExactMatchBoundary per case.',
        level_note='Partial: soundness/completeness of FuzzyMatchV2 and the completeness of ExactMatchBoundary (its boundary '
                   'conditions) for ALL inputs are not Lean theorems; they are checked per generated case by the spec oracle. Trusted: Lean kernel, standard axioms, harness, Go unicode tables.',
        technique='Lean 4 proof (spec = Sublist, slab lemma, overflow guard) + model/implementation correspondence with spec oracle',
    ),
    'C03': dict(
        areas=[('algo', 20000, 3000000)],
        rule=ALGO_RULE, trusted=ALGO_TRUST,
        level_text='Lean 4 theorems (by kernel evaluation) that the scoring constants, the per-scheme 128-entry class table and '
                   '7x7 bonus matrix regenerated from /repo on every run equal the documented values / the model, and that '
                   'bonusFor obeys the documented rules for all class pairs and all scheme values; for every line, range and '
                   'term, the scoring walk (calculateScore) on a range in which every position matches returns the documented '
                   'score of that occurrence (a function of line and range only), exact, prefix and suffix terms are scored as the '
                   'occurrence they report, and an occurrence of m characters scores between 16m+4(m-1) and 16m+10(m+1). '
                   'Scores are compared, per case, with refV2 (the recurrence evaluated over the whole line, no window, no slab, no fast path) and '
                   'with the documented alignment score of the reported occurrence.',
        level_note='Partial: score = refV2 for ALL inputs is not yet a Lean theorem (checked per case). Known findings: F11, F14.',
        technique='Lean 4 proof (regenerated tables by decide, bonus rules) + correspondence against a reference recurrence',
    ),
    'C05': dict(
        areas=[('algo', 20000, 2000000), ('pat', 6000, 600000)],
        procs=['conv'], needs_fzf=True,
        rule=ALGO_RULE + '; `pure` cases run one (line, term) under every slab state (zeroed, seeded junk, preceding call '
             'history, nil), both representations and with/without positions; `pat qh` cases search the SAME items under a '
             'sequence of 2..4 --nth expressions (each a later minor revision, as change-nth produces) and require every row '
             'to be what a fresh search gives; conv: the real fzf in a private tmux server over 150..1200 lines, a query '
             'under one --nth, change-nth, another query; the match list must be the fresh filter of the same lines, query '
             'and options (10 scenarios quick, 150 thorough; believed only if it repeats)',
        trusted=ALGO_TRUST,
        level_text='Lean 4 theorem for every program over scratch memory: if the checked run (no read of a cell not written '
                   'by this call, no index out of range) succeeds then the raw run returns the same value for every slab '
                   'content; instantiated to FuzzyMatchV2 (C05_v2_junk_independent); ranking the results of any sub-collection of '
                   'distinct items gives the ranking of all results restricted to it (sorting by compareRanks commutes with '
                   'restriction, with or without --tac), and renumbering the items monotonically changes no comparison. The driver establishes the hypothesis '
                   'on every generated case and compares raw run = implementation over identical seeded junk.',
        level_note='Partial: "the checked run succeeds for ALL inputs" is established per case, not yet as a theorem. '
                   'Sub-list stability at process level is covered under C04. Known finding: F6.',
        technique='Lean 4 proof (checked-run => junk-independent, free-monad memory model) + correspondence over dirty slabs',
    ),
    'C06': dict(
        areas=[('reader', 6000, 600000), ('rank', 4000, 400000), ('filter', 3000, 200000)],
        procs=['conv'], needs_fzf=True,
        rule='scripted io.Reader: streams of delimiter / CR / NUL / multi-byte pieces cut into reads of 0..3 bytes (incl. reads '
             'without progress, data+EOF and data+error outside the OS quantifier), both delimiters; large generated streams of '
             '65535..300000 bytes with records of 0..140000 bytes read in steps of 1..70000 bytes (64 KiB buffer and 128 KiB slab '
             'boundaries +-1); chunk-list scripts with --tail snapshots; filter runs with --header-lines / --tail; non-trivial = '
             '>= 2 records delivered in >= 3 reads, or a multi-chunk snapshot; distinct = distinct case lines'
             '; the real fzf with --header-lines=N and one or two reloads (convergence sessions): at rest the items are the records of the loaded stream without its first N',
        trusted=['the OS never returns data together with an error (hypothesis OSReads; the excluded point is exercised, finding F4)',
                 'bytes.IndexByte', 'process-level piping through a real pipe is part of the C07 driver'],
        level_text='Lean 4 theorem for every OS-style read sequence (any number and sizes of reads, any cut positions): Reader.feed '
                   'hands over exactly splitRecords(stream); delivery is unobservable; splitRecords inverts "records each followed by '
                   'the delimiter plus an optional unterminated tail" (empty records kept); under --tail N, after any history of '
                   'pushes and trimming snapshots the next snapshot shows exactly the last N items pushed, under their original '
                   'numbers. Reader.feed is run on scripted readers '
                   '(views compared with copies taken at push time), ChunkList push/snapshot(--tail)/PassMerger and --header-lines/'
                   '--tail filter runs are compared with the model and judged against "the last N records, numbered from the start".',
        level_note='Partial: slab-view stability and the chunk-list tail/index clauses are checked per case (views vs copies; '
                   'snapshot = last N items), not yet theorems. Known (outside the OS quantifier): F4.',
        technique='Lean 4 proof (feed = splitRecords by induction over reads with a buffer-splitting invariant) + model/implementation correspondence',
    ),
    'C07': dict(
        areas=[('filter', 4000, 300000)],
        procs=['pipe', 'sessions'], needs_fzf=True,
        rule='(a) the real binary in filter mode fed through a pipe in seeded write sizes (1..65536 bytes): records with leading / '
             'trailing blanks, empty lines, multi-line NUL-separated records, non-ASCII, SGR sequences; all combinations of --read0 / '
             '--print0 / --print-query / --ansi / --with-nth / --delimiter / --no-sort / --tac; (b) the real binary inside a private '
             'tmux server driven through --listen: random action histories ending in accept / accept-non-empty / '
             'accept-or-print-query / abort / print-query / cancel, with --multi selection histories, print(), --print-query; '
             '(c) in-process filter runs; non-trivial = some but not all records printed / a history of >= 5 steps; distinct = distinct case lines'
             '; sessions also with --accept-nth (15 range forms incl. negative and out-of-range bounds over records of 1..4 fields) and --expect (ended by pressing one of the keys or by a posted accept)'
             '; sessions also under --print0',
        trusted=['tmux as the terminal emulator', 'the --listen endpoint as the way to inject actions', 'OS pipes'],
        level_text='Lean 4 theorems: exit status and output of a session stated outright for every final state (abort 130 and no '
                   'output; print-query 0; accept 0 iff a selected or current line is output, else 1); output order (query, queued '
                   'prints, selection in selection order or the current line); every item carries its original record as the text '
                   'to print, also under --with-nth. The real binary is run under pipes and tmux; stdout bytes and exit status are '
                   'compared with the model and judged against "every printed record is an input record byte for byte, '
                   'terminated as requested, exit 0 iff something was output".',
        level_note='Partial: --select-1 / --exit-0 are driven on inputs with at most one match (more matches start the finder: the sessions); --accept-nth with range expressions only (no {..} templates); exit status 2 on option errors is '
                   'covered under C17. Fixed while building: F13.',
        technique='Lean 4 proof (decision-table theorems over the session model) + process-level correspondence (pipes, tmux)',
    ),
    'C09': dict(
        areas=[],
        procs=['sessions'], needs_fzf=True,
        rule='the real binary inside a private tmux server (one per session) driven through --listen, the state read back with GET '
             'after every step: 3..30 (quick) / 3..120 (thorough) steps of 1..3 actions drawn from the bindable editing (chars, word '
             'and line motions, kills, yank, put, change/clear/replace-query), navigation (up/down/first/last/pos/page/half-page) '
             'and selection (select/deselect/toggle*/select-all/deselect-all/toggle-all/clear-selection) actions and toggle-sort, '
             'over lists of 0..40 lines, window heights 5..24, three layouts, --multi limits 0/1/2/3/unlimited, --cycle, --tac, '
             '--no-sort, --exact; non-trivial = >= 5 steps on >= 2 lines; distinct = distinct sessions'
             '; a directed template of word motions / kills / yank over words made of non-ASCII letters and digits'
             '; a directed template with reload (of the same input): selections and exclusions are dropped, the query and the cursor stay'
             '; change-multi (the limit threaded through the action list)',
        trusted=['tmux', 'the --listen endpoint (state is observed after the renderer has settled: three equal consecutive GETs)',
                 'what matching returns for a query is the C01/C04 model (parameter resultsOf of the session model)'],
        level_text='Lean 4 theorems over the session model, for every history of action lists and every option set: the query cursor '
                   'stays inside the query, never more than --multi items are selected (none without --multi), after rendering the '
                   'list cursor designates an existing result or the list is empty, and that result is inside the list window '
                   '(offset <= cy < offset + rows, the window never scrolls past the end of the list); toggle is an involution below the limit; '
                   'kill-line + yank restores the query; selections survive query changes; with --track the cursor follows its '
                   'item; excluded items stay out; while the input section is hidden no action changes the query. The action interpreter of the real '
                   'binary is compared step by step with the model.',
        level_note='Partial: --track, --no-input, offset-up/down/middle, jump and mouse actions, multi-line items are outside the '
                   'model; the readline refinement (word motions as a zipper) is checked per case. Fixed while building: F17.',
        technique='Lean 4 proof (invariants by induction over action histories) + step-by-step process-level correspondence under tmux',
    ),
    'C14': dict(
        areas=[('key', 4000, 150000)],
        procs=['robust'], needs_fzf=True,
        rule='(a) LightRenderer.GetChar via hook on generated byte buffers: every key / function / modifier / paste / mouse sequence '
             'of the decoder, truncated and mutated variants, random bytes, invalid UTF-8, cursor-position reports, double clicks; '
             'buffers of 1..3000 bytes, optionally cut so that the tail is delivered by the terminal on the decoder\'s "second chance"; '
             'mouse support on/off; (b) the real binary inside a private tmux server: hostile lines (wide, combining, control, invalid '
             'bytes, 5000 columns, empty), random option sets (3 layouts, 6 info styles, borders, margins, padding, preview windows of '
             'all positions / tiny sizes, header / header-lines / header-first, wrap, gap, multi-line, style presets, tabstop, pointer, '
             'ellipsis, long prompt / query, no-input), windows from 1x1 to 200x50, 2..12 (quick) / 2..60 (thorough) steps of action '
             'lists, raw key / mouse bytes (send-keys -H) and resizes, liveness probe, then accept / abort / ctrl-c / SIGTERM / SIGINT, '
             'in a third of the scenarios while an endless preview command is running; non-trivial = buffers >= 3 bytes, every scenario; '
             'distinct = distinct case lines'
             '; a directed mouse family: press / drag / release / wheel / right button / double click at and around every edge of the list window (known geometry in half of the scenarios)',
        trusted=['tmux as terminal emulator and its pane flags (alternate_on, mouse_any_flag)', 'stty -g for the termios comparison',
                 'ps for the process table', 'a verdict of the process-level driver is only kept if the same scenario gives it again (re-run twice)'],
        level_text='Lean 4 theorems over an index-checked model of the input decoder (GetChar, escSequence, mouseSequence: every index '
                   'expression of the Go code is a checked access): for every non-empty byte buffer, any pending terminal input, mouse '
                   'support on or off, GetChar returns an event or waits — no index out of range, buffer[sz:] always in range — and every '
                   'event consumes at least one pending byte, so draining any buffer terminates with at most one event per byte; the width '
                   'arithmetic of list rows keeps every row within the window for every width from 0. The model is compared with the real '
                   'decoder event by event. Whole-program robustness and exit hygiene (no panic, no hang, termios / alternate screen / '
                   'mouse mode restored, TMPDIR empty, no surviving child) are observed on the real binary under hostile conditions.',
        level_note='Partial, as DESIGN.md section 8 says: crash-freedom of the whole renderer, hangs in blocking I/O, signal timing, termios '
                   'and child reaping live in the runtime — they are exercised by the process-level driver (validation), not proved; the '
                   'theorems cover the decoder and the row-width arithmetic. SIGHUP / SIGKILL are not handled by fzf and not tested.',
        technique='Lean 4 proof (input decoder totality + progress, row width bounds) + event-by-event correspondence + hostile-conditions process driver under tmux',
    ),
    'C15': dict(
        areas=[],
        procs=['screens'], needs_fzf=True,
        rule='the real binary inside a private tmux server driven through --listen; before the first and after every step the '
             'state reported by GET / and the screen (capture-pane, once two consecutive captures agree) are recorded: 3..14 (quick) / '
             '3..60 (thorough) steps of editing, navigation and selection actions, header toggles / changes, prompt changes, '
             'toggle-hscroll and clear-screen, over lists of 0..40 ASCII lines (a third of them longer than the window, some exactly '
             'as wide as the text area +-1) or 110..150 lines with long lines matched at different places by queries of equal '
             'length; windows 24..80 x 8..24, three layouts, info default / inline / hidden, separator on/off, --header (0..2 lines, '
             'also wider than the window), --header-lines 0..2, pointer / marker / ellipsis / prompt variants, --no-hscroll, '
             '--keep-right, --hscroll-off 0/3/10/25, --multi limits; non-trivial = >= 4 steps on >= 2 lines; distinct = distinct sessions'
             '; --info=inline-right / right; a template of actions that repaint the prompt row only',
        trusted=['tmux as the terminal emulator (capture-pane)', 'the --listen endpoint for the reported state',
                 'how the state evolves under the actions is the C09 session model; what matching returns is the C01/C04 model'],
        level_text='Lean 4 theorems over the rendering model (prompt line, info line, header block, list rows with pointer, marker, '
                   'truncation by ellipsis / horizontal scrolling / keep-right; three layouts), for every window size, option set '
                   'and line: a line that fits is shown complete; a truncated line never exceeds its room and consists of the '
                   'ellipsis and one contiguous slice of the line; pointer iff current, marker iff selected; the k-th result is on '
                   'the row the layout prescribes and header rows are disjoint from list rows; the prompt line starts with prompt + '
                   'query and the info line carries the counters; a hidden input section takes no rows (the list gets them); '
                   '--header-first reorders the fixed rows without moving any list row; '
                   'repainting a row over its previous contents (erasing only as far '
                   'as the previous text reached) equals a repaint from scratch, for every history of repaints. The screen of the '
                   'real binary is compared cell by cell with a from-scratch rendering of the model state after every step.',
        level_note='Partial: colours / highlights, borders, margins, preview pane, scrollbar, multi-line items, --wrap, --gap, '
                   'header-first, info styles right / inline-right, horizontally scrolled queries and non-ASCII widths are outside '
                   'the model (exact comparison is claimed for ASCII lines, as the property states). Which state change triggers '
                   'which repaint request is covered by the correspondence only. Found while building: F21.',
        technique='Lean 4 proof (rendering model: truncation, layout and incremental-repaint theorems) + cell-by-cell screen correspondence under tmux',
    ),
    'C10': dict(
        areas=[('tok', 20000, 2000000), ('pat', 4000, 400000)],
        rule='seeded lines built from delimiter / blank / multi-byte pieces (leading, trailing, consecutive delimiters); '
             'AWK, single-character, multi-character literal and regular-expression delimiters (incl. ones matching the '
             'empty string); nth expressions with bounds -6..6, 0, +-1000000 and malformed ones; non-trivial = a line '
             'with at least two fields; distinct = distinct case lines',
        trusted=['Go regexp (match locations are taken from the implementation run and checked for well-formedness)',
                 'strconv.Atoi outside small numbers'],
        level_text='Lean 4 theorems for all lines: AWK / literal / regex (any well-formed location list) splitting '
                   'partitions the line and each field carries the character offset of what precedes it; for every field list and '
                   'every documented index expression (N, A..B, A.., ..B, .. with bounds of any sign and magnitude) Transform yields '
                   'the concatenation of exactly the fields the expression denotes (nothing when empty or out of range), including '
                   'the normalisations newRange applies. Model tied to '
                   '/repo by differential runs of Tokenize / Transform / ParseRange / StripLastDelimiter; an independent '
                   'spec (documented index expressions resolved against the field count) judges every transformed token.',
        level_note='Partial: ParseRange = the documented grammar is shown on kernel-evaluated instances and checked per case, not '
                   'proved as one equation; the prefix length of a transformed token is checked per case. Trusted: Lean kernel, '
                   'standard axioms, harness, Go regexp.',
        technique='Lean 4 proof (partition and offset theorems by induction) + model/implementation correspondence with spec oracle',
    ),
    'C11': dict(
        areas=[('ansi', 20000, 3000000)],
        procs=['pipe'], needs_fzf=True,
        rule='two streams: (a) arbitrary bytes assembled from fragments of escape syntax (ESC, CSI/OSC openers and terminators, '
             'parameter bytes, BS, SO/SI, newlines, multi-byte and invalid UTF-8), with and without a carried-over state; '
             '(b) grammar-generated interleavings of text with SGR operations (16/256/24-bit colours with ; and : separators, '
             'attributes on/off, resets, combined parameters), OSC-8 hyperlinks, other CSI sequences, two-byte ESC, SO, '
             'backspace pairs; non-trivial = a stream with >= 2 characters and >= 3 operations, or bytes containing ESC; '
             'distinct = distinct case lines'
             '; (c) the real binary in filter mode under --ansi (with and without --no-color): records with and without ESC bytes, backspace overstrikes, SO / SI, OSC-8 links, colours left open into the next record; printed = input with exactly its escape sequences removed, found = the lines whose stripped text matches',
        trusted=['the regular expression quoted in ansi.go (with leftmost-first semantics) as the definition of an escape sequence',
                 'utf8.DecodeRune / DecodeLastRune (modelled Go-faithfully)'],
        level_text='Lean 4 theorems, for arbitrary bytes (invalid UTF-8, truncated or nested sequences): every sequence the scanner '
                   'reports is a non-empty piece of the line that starts at or after the scan position and ends inside the line (so '
                   'the stripping loop terminates and never takes text back); the stripped text is a sublist of the line — nothing is '
                   'added, altered or reordered; text without control characters is returned untouched for every carried-over state and the '
                   'scanner finds no sequence in it; the abstract colouring gives one cell per character; colour arithmetic stays '
                   'in int32. The scanner, extractColor and interpretCode are compared with the model on both streams; an '
                   'independent matcher for the documented regular expression decides what must be stripped, spans are checked '
                   'for well-formedness, and an abstract pen interpreter decides the colour of every character.',
        level_note='Partial: scanner = documented regex and SGR refinement for ALL inputs are checked per case, not yet theorems. '
                   'Fixed while building: F16 (colour lost before a trailing non-colour sequence).',
        technique='Lean 4 proof (plain text invariance by induction over the scanner) + correspondence with a regex-semantics oracle and an abstract colouring oracle',
    ),
    'C12': dict(
        areas=[('quote', 1500, 150000)],
        procs=['expand'], needs_fzf=True,
        rule='strings built from every shell metacharacter, quotes, backslashes, newlines, blanks, globs, `$()`, backticks, '
             'brace lists, non-ASCII; templates of literal words and placeholders {} {q} {+} {n} {+n} {N} {-N} {A..} {..B} {sN} '
             'and escaped ones, 0..3 items, 0..3 selected, AWK / literal delimiters; every expansion is evaluated by the real '
             '/bin/sh (dash) and bash (printf %s\\0); non-trivial = an item or query containing a character special to the '
             'shell is substituted; distinct = distinct case lines'
             '; expansion sessions also select several items by ONE action list and by select-all before {+} is expanded'
             '; queries and items containing text that looks like a placeholder',
        trusted=['/bin/sh (dash) and bash as the reference for POSIX word splitting; the Lean shell model ShEval is compared '
                 'with both on every quoted string', 'fish is not installed: its single-quote rule is modelled, not validated',
                 'the placeholder regular expression (templates are lists of blank-separated parts)'],
        level_text='Lean 4 theorems for all byte strings: the quoted form evaluates (in a model of POSIX word splitting that fails '
                   'on any unquoted metacharacter) to exactly the original text; joined quoted items give one word per item in '
                   'order; in-context composition; the word splitting of a whole expanded template ({}, {+}, {q}, literal words) is '
                   'the list of the texts the placeholders stand for; the fish escaper round-trips in a model of fish quoting; the tmux re-quoting '
                   'is the same function. QuoteEntry / escapeSingleQuote / replacePlaceholder are compared with the model and '
                   'every expansion is handed to the real dash and bash, whose argv must be the original texts.',
        level_note='Partial: the template-level statement is checked per case (model + real shells), not proved; {f} (temp file) '
                   'and {r} (raw) are excluded by their documented meaning. NUL bytes are outside the quantifier.',
        technique='Lean 4 proof (round-trip through a shell word-splitting model, by induction on the text) + correspondence incl. real shells',
    ),
    'C16': dict(
        areas=[('http', 6000, 600000)],
        rule='requests assembled from GET / POST / malformed request lines, Content-Length (exact, off by one, 0, > 1 MiB, '
             'non-numeric, missing) and X-API-Key (exact, prefix, extended, upper-cased, empty, missing) headers in random order '
             'and case, junk headers, missing blank line, action-list bodies (valid, unknown, empty, with CR/LF), early close, '
             '70 000-byte lines; every request is written in seeded chunkings (whole, byte by byte, random cuts) and then closed; '
             'non-trivial = a request that reaches the key check (GET / POST accepted or 401); distinct = distinct case lines'
             '; every form of a --listen address (HOST:PORT, :PORT, PORT, malformed), with and without FZF_API_KEY, through parseListenAddress and the real startHttpServer: without a key a started listener is bound to a loopback address',
        trusted=['net.Pipe as the connection (the real TCP socket and the 10 s read deadline are exercised by the tmux driver only)',
                 'bufio.Scanner (its buffer management is modelled) ', 'parseSingleActionList is external here (C17); the check '
                 'compares what the server delivers with what --bind yields for the same text'],
        level_text='Lean 4 theorems about the request model: with a configured key an accepting answer (actions or state) implies '
                   'the x-api-key value equals the key; a rejection decided while scanning is final; an accepted POST hands over '
                   'exactly the first Content-Length bytes and only if that many arrived; the content length is bounded by 1 MiB; '
                   'for every byte stream, text reaches the action interpreter only if the request line was not a GET. '
                   'handleHttpRequest is run over a pipe with scripted chunking and compared with the model (incl. the '
                   'chunk-dependent bufio.Scanner behaviour); delivered actions are compared with parseSingleActionList.',
        level_note='Fixed while building: F8 (GET answered before the API key was read). A non-local listener refusing to start '
                   'without a key and the socket-level liveness are covered by the process driver, not by theorems.',
        technique='Lean 4 proof (access-rule theorems over the request state machine) + model/implementation correspondence under scripted chunking',
    ),
    'C19': dict(
        areas=[('walk', 1500, 150000)],
        rule='generated directory trees in a scratch directory (removed afterwards): up to 7 directories nested up to 4 deep, up to 8 '
             'files, names with spaces / newlines / non-ASCII, hidden files and directories, .git / node_modules, symlinks to a '
             'directory and to a file; all combinations of file / dir / hidden / follow, skip lists by base name, by path, by path '
             'suffix and with a leading separator, incl. a path skip next to a directory whose name only ends with its first '
             'component; roots ".", a sub-directory, and "." / ".." from a working directory inside the tree; outputs compared as sorted multisets; '
             'non-trivial = at least two paths listed and at least one entry not listed; distinct = distinct case lines'
             '; roots under other spellings (./d, d/, d//, d/../d, d/./e, d/e/.., .//d)',
        trusted=['fastwalk visits every entry below a root once, parents first, and honours SkipDir (its parallel order is not modelled: '
                 'outputs are compared sorted)', 'the file system of the sandbox'],
        level_text='Lean 4 theorems about the walker model: a pruned directory (hidden without `hidden`, or matched by a skip rule) '
                   'contributes nothing, itself or below; a plain file is listed once iff `file`; a symbolic link is not entered '
                   'without `follow`; everything listed while visiting an entry lies under the path it is printed as; the skip '
                   'rules on the documented examples (foo/bar vs baz/foo/bar vs bazfoo/bar). readFiles is run on generated trees '
                   'and compared with the model as multisets.',
        level_note='Partial: walk = declarative tree predicate for ALL trees is checked per case. Known finding F12: hidden *files* in '
                   'visible directories are listed although `hidden` is unset (the man page speaks of hidden directories).',
        technique='Lean 4 proof (structural theorems over the visit recursion) + model/implementation correspondence on generated trees',
    ),
    'C17': dict(
        areas=[('bind', 10000, 1500000), ('filter', 2000, 100000)],
        rule='bind strings rendered from (keys, actions) structures: 1..3 groups, 1..2 keys each (letters, ctrl-/alt- chords, named '
             'keys, punctuation), 1..3 actions each, argument-taking actions in every documented delimiter form (parentheses, '
             'brackets, braces, angle brackets, 12 matching punctuation pairs, trailing colon), arguments containing + , : and the '
             'delimiter characters of other forms, mixed-case action names; raw strings of bind syntax fragments; option vectors over '
             'a vocabulary of 45 option spellings (flags, --opt=value, --opt value, integers incl. invalid ones) with and without '
             '$FZF_DEFAULT_OPTS; append forms (key:+actions) onto keys bound by earlier groups; bare put on printable and '
             'non-printable keys; override pairs over EVERY option of the option loop (names and the Options fields each block '
             'assigns are read off /repo/src/options.go on every run; accepted forms are found by asking the parser): the same '
             'option twice, an option and its --no- twin, two options writing the same fields, in one vector or environment '
             'then command line, compared on a structural dump of all fields of Options; arbitrary words (empty, NUL-free '
             'junk, huge numbers) where a value may be expected; argv order / override noise in the filter area; non-trivial = a structured bind string, or an '
             'accepted option vector of >= 2 arguments; distinct = distinct case lines'
             '; every text-valued drawing option with values at the edges of its width check (zero-width clusters, wide and combining characters, invalid UTF-8)',
        trusted=['the key-name table (parseKeyChords is used to resolve the key names of the intended structure)',
                 'go-shellwords for splitting $FZF_DEFAULT_OPTS', 'the ~150 option value parsers outside the modelled vocabulary '
                 '(exercised for "no crash" only)'],
        level_text='Lean 4 theorems: masking of action arguments preserves the length of the bind string for every string and every '
                   'set of action names (the invariant the offset-based splitting relies on); a later flag overrides whatever came '
                   'before; the command line is a later layer over $FZF_DEFAULT_OPTS; a valued option consumes exactly the next '
                   'argument. The set of argument-taking actions is regenerated from executeRegexp on every run. maskActionContents '
                   'and ParseOptions (dump of 19 fields) are compared with the model; parseKeymap is judged against the structure '
                   'the bind string was rendered from (every key gets exactly the listed actions, arguments verbatim).',
        level_note='Partial: bind round-trip for ALL strings is checked per case, not proved; only part of the option vocabulary is '
                   'modelled; exit status 2 on rejection is observed at process level by the pipe driver only for filter options.',
        technique='Lean 4 proof (length invariant by induction, override theorems over a fold) + correspondence and intent round-trip',
    ),
    'C18': dict(
        level_text='Lean 4 theorems over a hand-written model of src/history.go (file contents after any sequence of '
                   'sessions, cursor range, slot-editor refinement, edits never persisted), tied to /repo by an in-process '
                   'differential run of the model and the real History type on seeded sessions; the executable spec is '
                   'evaluated on the implementation answers.',
        level_note='Trusted: Lean kernel; axioms propext/Classical.choice/Quot.sound; the correspondence harness and verif '
                   'hooks; os file I/O. Queries containing a newline are outside the quantifier.',
        technique='Lean 4 proof (induction over sessions, refinement to a slot editor) + model/implementation correspondence',
        areas=[('hist', 3000, 400000)],
        procs=['histsess'], needs_fzf=True,
        rule='seeded sessions (initial file: missing/empty/with+without trailing newline/over the limit; '
             'navs: prev/next/edit; submit or not); non-trivial = the session moves through at least one stored '
             'entry after an edit and submits a non-empty line; distinct = distinct case lines; plus 24 (quick) / 400 (thorough) sessions '
             'of the real binary with --history under tmux: change-query / clear-query / prev-history / next-history posted through '
             '--listen (40 % of them recall-edit-leave-return sequences, also edits to the empty line), accept or abort; the query after '
             'every step and the file after exit are compared with the model',
        trusted=['os.ReadFile/os.WriteFile', 'tmux and --listen for the process-level sessions (the terminal glue: override on prev/next, '
                 'append on accept)'],
        assumptions=['submitted queries contain no newline (outside the property quantifier)'],
    ),
}

# Reasons for properties that are not claimed (MANIFEST.not_applicable); default: not built yet.
NOT_CLAIMED = {}
