package main

// Area "algo": the exported match functions of src/algo.
//
//   algo <fn> <scheme> <cs> <norm> <fwd> <withPos> <slab> <repr> <text> <pattern>
//        => <start> <end> <score> <pos|nil>
//
//   fn     v1 v2 exact boundary prefix suffix equal
//   slab   nil | z (fresh zeroed slab) | d<seed> (slab filled with seeded junk)
//          | h<seed> (slab dirtied by a seeded history of earlier calls)
//   repr   b (bytes; text must be ASCII) | r (runes)

import (
	"fmt"
	"math/rand"
	"strings"
	"unicode"

	fzf "github.com/junegunn/fzf/src"
	"github.com/junegunn/fzf/src/algo"
	"github.com/junegunn/fzf/src/util"
)

var algoFns = map[string]algo.Algo{
	"v1": algo.FuzzyMatchV1, "v2": algo.FuzzyMatchV2, "exact": algo.ExactMatchNaive,
	"boundary": algo.ExactMatchBoundary, "prefix": algo.PrefixMatch, "suffix": algo.SuffixMatch,
	"equal": algo.EqualMatch,
}

var curScheme = ""

func setScheme(s string) {
	if s != curScheme {
		algo.VerifReset()
		if !algo.Init(s) {
			panic("bad scheme " + s)
		}
		curScheme = s
	}
}

func makeSlab(spec string) *util.Slab {
	if spec == "nil" {
		return nil
	}
	c := fzf.VerifConstants()
	slab := util.MakeSlab(c["slab16Size"], c["slab32Size"])
	switch spec[0] {
	case 'z':
	case 'd':
		seed := atoi(spec[1:])
		for i := range slab.I16 {
			slab.I16[i] = junk16(seed, i)
		}
		for i := range slab.I32 {
			slab.I32[i] = junk32(seed, i)
		}
	case 'h':
		r := rand.New(rand.NewSource(int64(atoi(spec[1:]))))
		for k := 0; k < 6; k++ {
			t := genText(r, 10+r.Intn(80))
			p := subPattern(r, t, 1+r.Intn(4))
			chars := util.RunesToChars(t)
			algo.FuzzyMatchV2(false, false, r.Intn(2) == 0, &chars, []rune(strings.ToLower(string(p))), r.Intn(2) == 0, slab)
		}
	case 'g':
		// preceding call on a long line that V2 still takes (N*M <= slab) but whose matrices do
		// not fit into the slab: the calls after it must see the same slab capacity as before
		m := 6 + atoi(spec[1:])%5
		n := c["slab16Size"]/m - 3
		t := make([]rune, n)
		for i := range t {
			t[i] = 'x'
		}
		pat := []rune("abcdefghij")[:m]
		copy(t, pat[:m-1])
		t[n-1] = pat[m-1]
		chars := util.RunesToChars(t)
		algo.FuzzyMatchV2(false, false, true, &chars, pat, false, slab)
	default:
		panic("bad slab " + spec)
	}
	return slab
}

// emitSlabHistory: lines just too long for V2 on a full-size slab (so V1 scores them), whose
// leftmost embedding is scattered and a later one contiguous (V1 and V2 disagree), evaluated
// after a call that needed more scratch memory than the slab holds.
func emitSlabHistory(r *rand.Rand, emit func(op string, args ...string)) {
	c := fzf.VerifConstants()
	for k := 0; k < 4; k++ {
		m := 6 + r.Intn(5)
		n := c["slab16Size"]/m + 1 + r.Intn(600)
		pat := []rune("abcdefghij")[:m]
		t := make([]rune, n)
		for i := range t {
			t[i] = rune("xyz-_ /.0"[r.Intn(9)])
		}
		at := r.Intn(50)
		for i, ch := range pat { // scattered
			t[at+3*i] = ch
		}
		at2 := 200 + r.Intn(n-300)
		copy(t[at2:], pat) // contiguous
		repr := "r"
		if r.Intn(2) == 0 {
			repr = "b"
		}
		emit("v2", "default", itoa(r.Intn(2)), "0", "1", itoa(r.Intn(2)), fmt.Sprintf("g%d", r.Intn(1000)), repr, encRunes(t), encRunes(pat))
	}
}

// pureVariants lists the (withPos, repr, slab) combinations of one `pure` case, in a fixed order.
func pureVariants(ascii bool, seed string, nilOK bool) [][3]string {
	out := [][3]string{}
	for _, wp := range []string{"0", "1"} {
		reprs := []string{"r"}
		if ascii {
			reprs = append(reprs, "b")
		}
		for _, repr := range reprs {
			slabs := []string{"z", "d" + seed, "h" + seed}
			if nilOK {
				slabs = append(slabs, "nil")
			}
			for _, sl := range slabs {
				out = append(out, [3]string{wp, repr, sl})
			}
		}
	}
	return out
}

// algo pure <fn> <scheme> <cs> <norm> <fwd> <seed> <text> <pattern> => one result per variant
func algoPure(args []string) string {
	text, pattern := decRunes(args[6]), decRunes(args[7])
	c := fzf.VerifConstants()
	nilOK := len(text)*len(pattern) <= c["slab16Size"] && len(pattern) <= 1000
	outs := []string{}
	for _, v := range pureVariants(isASCII(text), args[5], nilOK) {
		r := algoEval(args[0], []string{args[1], args[2], args[3], args[4], v[0], v[2], v[1], args[6], args[7]})
		outs = append(outs, strings.ReplaceAll(r, " ", "/"))
	}
	return strings.Join(outs, " ")
}

// Stateless junk shared with the Lean driver (Driver/Algo.lean `junk`).
func junkHash(seed, i int) uint64 {
	return (uint64(seed+1)*2654435761 + uint64(i+1)*40503) & 0xffffffff
}

func junk16(seed, i int) int16 {
	h := junkHash(seed, i)
	switch seed % 3 {
	case 0:
		return int16(h%60) - 10
	case 1:
		return int16(uint16(h))
	default:
		return int16(1 + h%3)
	}
}

func junk32(seed, i int) int32 { return int32(junkHash(seed, i)%100000) - 50 }

func algoEval(op string, args []string) string {
	if op == "pure" {
		return algoPure(args)
	}
	fn := algoFns[op]
	if fn == nil {
		panic("bad fn " + op)
	}
	setScheme(args[0])
	cs, norm, fwd, withPos := args[1] == "1", args[2] == "1", args[3] == "1", args[4] == "1"
	slab := makeSlab(args[5])
	text := decRunes(args[7])
	pattern := decRunes(args[8])
	var chars util.Chars
	if args[6] == "b" {
		b := make([]byte, len(text))
		for i, r := range text {
			if r >= 128 {
				panic("bytes repr needs ASCII")
			}
			b[i] = byte(r)
		}
		chars = util.ToChars(b)
		if !chars.IsBytes() {
			panic("expected bytes repr")
		}
	} else {
		chars = util.RunesToChars(text)
	}
	res, pos := fn(cs, norm, fwd, &chars, pattern, withPos, slab)
	ps := "nil"
	if pos != nil {
		ps = encInts(*pos)
	}
	return fmt.Sprintf("%d %d %d %s", res.Start, res.End, res.Score, ps)
}

// alphabet touching every character class, ASCII and not
var asciiAlpha = []rune("abcabcxyzABX019  \t/,:-_.|;abcxyz019 AB-_/\x1f\x0e\x1b\x0b\r\x1c")
var uniAlpha = []rune{0xe9, 0xc9, 0xe1, 0xf1, 0x1c5, 0x24b6, 0xdf, 0x4e2d, 0x663, 0xa0, 0x3000, 0xfffd, 0x130,
	0x2160, 0x1e9e, 0x3c3, 0x3a3, 0x101, 0x1ea1, 0x2184, 0x300, 0x1f600, 0xb2, 0x85,
	// capitals whose lower-case form is in the normalisation table while they themselves are not, and their lower-case forms
	0x141, 0x142, 0x10c, 0x10d, 0x160, 0x17d, 0x106, 0x1ea0, 0x100}

func genText(r *rand.Rand, n int) []rune {
	t := make([]rune, n)
	uni := r.Intn(3) == 0
	small := r.Intn(3) == 0 // tiny alphabet: many repeated characters, many alignments
	for i := range t {
		switch {
		case small:
			t[i] = []rune("ab-aB ")[r.Intn(6)]
		case uni && r.Intn(4) == 0:
			t[i] = uniAlpha[r.Intn(len(uniAlpha))]
		default:
			t[i] = asciiAlpha[r.Intn(len(asciiAlpha))]
		}
	}
	return t
}

func subPattern(r *rand.Rand, t []rune, m int) []rune {
	if len(t) == 0 {
		return nil
	}
	p := []rune{}
	i := r.Intn(len(t))
	contiguous := r.Intn(2) == 0
	for len(p) < m && i < len(t) {
		p = append(p, t[i])
		if contiguous {
			i++
		} else {
			i += 1 + r.Intn(4)
		}
	}
	return p
}

func isASCII(t []rune) bool {
	for _, c := range t {
		if c >= 128 {
			return false
		}
	}
	return true
}

func algoGen(r *rand.Rand, count int, emit func(op string, args ...string)) {
	fns := []string{"v2", "v2", "v2", "v1", "exact", "boundary", "prefix", "suffix", "equal"}
	schemes := []string{"default", "default", "path", "history"}
	c := fzf.VerifConstants()
	if count >= 1000 {
		emitSlabHistory(r, emit)
	}
	for i := 0; i < count; i++ {
		fn := fns[r.Intn(len(fns))]
		n := r.Intn(24)
		switch r.Intn(40) {
		case 0:
			n = 100 + r.Intn(400)
		case 1:
			n = 1000 + r.Intn(3000)
		case 2:
			if r.Intn(4) == 0 {
				n = 60000 + r.Intn(12000) // beyond uint16 and the slab
			}
		}
		t := genText(r, n)
		m := 1 + r.Intn(4)
		switch r.Intn(20) {
		case 0:
			m = 0
		case 1:
			m = 5 + r.Intn(20)
		case 2:
			if n > 500 {
				m = 30 + r.Intn(300)
			}
		}
		var p []rune
		switch r.Intn(6) {
		case 0:
			p = genText(r, m) // unrelated pattern
		default:
			p = subPattern(r, t, m)
			if r.Intn(5) == 0 && len(p) > 0 { // perturb one character
				p[r.Intn(len(p))] = asciiAlpha[r.Intn(len(asciiAlpha))]
			}
		}
		switch fn {
		case "prefix":
			if r.Intn(2) == 0 && len(t) >= m {
				lead := 0
				for lead < len(t) && unicode.IsSpace(t[lead]) && r.Intn(3) > 0 {
					lead++
				}
				p = append([]rune{}, t[lead:util.Min(len(t), lead+m)]...)
			}
		case "suffix":
			if r.Intn(2) == 0 && len(t) >= m {
				tail := len(t)
				for tail > 0 && unicode.IsSpace(t[tail-1]) && r.Intn(3) > 0 {
					tail--
				}
				p = append([]rune{}, t[util.Max(0, tail-m):tail]...)
			}
		case "equal":
			if r.Intn(2) == 0 {
				p = []rune(strings.TrimSpace(string(t)))
				if r.Intn(4) == 0 {
					p = append([]rune{}, t...)
				}
			}
		}
		cs, norm := r.Intn(3) == 0, r.Intn(2) == 0
		conform := r.Intn(20) > 0
		if conform {
			if !cs {
				p = []rune(strings.ToLower(string(p)))
			}
			if norm {
				p = algo.NormalizeRunes(p)
			}
		}
		fwd, withPos := r.Intn(4) > 0, r.Intn(2) == 0
		slab := "z"
		switch r.Intn(6) {
		case 0:
			slab = "nil"
			// keep the int16 score bound (see known finding F1) and the model's cost in check
			if len(p) > 1000 || n*len(p) > 4*c["slab16Size"] {
				slab = "z"
			}
		case 1, 2:
			slab = fmt.Sprintf("d%d", r.Intn(1000))
		case 3:
			slab = fmt.Sprintf("h%d", r.Intn(1000))
		}
		repr := "r"
		if isASCII(t) && r.Intn(3) > 0 {
			repr = "b"
		}
		if r.Intn(4) == 0 && n < 5000 {
			emit("pure", fn, schemes[r.Intn(len(schemes))], itoa(b2i(cs)), itoa(b2i(norm)), itoa(b2i(fwd)),
				itoa(r.Intn(1000)), encRunes(t), encRunes(p))
			continue
		}
		emit(fn, schemes[r.Intn(len(schemes))], itoa(b2i(cs)), itoa(b2i(norm)), itoa(b2i(fwd)), itoa(b2i(withPos)),
			slab, repr, encRunes(t), encRunes(p))
	}
}

func init() { register("algo", &area{gen: algoGen, eval: algoEval}) }
