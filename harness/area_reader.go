package main

// Area "reader": Reader.feed over a scripted io.Reader.
//
//   reader feed <delimNil> <stream> <reads>  => <pushed records> <stable>
//
//   reader feedk <delimNil> <stream> <reads> <reject>  => the same with a pusher that keeps every record but
//            answers "not an item" for the first <reject> records, as the item builder does for --header-lines
//
//   <reads>  "/"-joined steps: <n> (return up to n bytes, err=nil), <n>e (…together with io.EOF),
//            <n>x (…together with another error), 0 = (0, nil) (no progress); after the script the
//            reader returns the remaining bytes in one read each call, then (0, EOF).
//   <stable> 1 iff every pushed view still holds the bytes it held when it was pushed.

import (
	"bytes"
	"errors"
	"fmt"
	"io"
	"math/rand"
	"strings"

	fzf "github.com/junegunn/fzf/src"
)

type scriptedReader struct {
	data  []byte
	steps []string
}

var errOther = errors.New("other")

func (s *scriptedReader) Read(p []byte) (int, error) {
	if len(s.steps) == 0 {
		if len(s.data) == 0 {
			return 0, io.EOF
		}
		n := copy(p, s.data)
		s.data = s.data[n:]
		return n, nil
	}
	st := s.steps[0]
	s.steps = s.steps[1:]
	var err error
	if strings.HasSuffix(st, "e") {
		err, st = io.EOF, st[:len(st)-1]
	} else if strings.HasSuffix(st, "x") {
		err, st = errOther, st[:len(st)-1]
	}
	want := atoi(st)
	if want > len(s.data) {
		want = len(s.data)
	}
	n := copy(p, s.data[:want])
	s.data = s.data[n:]
	return n, err
}

func readerEval(op string, a []string) string {
	if op != "feed" && op != "feedk" {
		panic("bad op")
	}
	var stream []byte
	if strings.HasPrefix(a[1], "gen:") {
		stream = genStream(a[1])
	} else {
		stream = decBytes(a[1])
	}
	steps := []string{}
	if a[2] != "_" {
		steps = strings.Split(a[2], "/")
	}
	var views, copies [][]byte
	if op == "feedk" {
		// the pusher keeps every record but reports the first a[3] as "not an item" (--header-lines)
		views, copies = fzf.VerifReaderFeedKeep(&scriptedReader{data: stream, steps: steps}, a[0] == "1", atoi(a[3]))
	} else {
		views, copies = fzf.VerifReaderFeed(&scriptedReader{data: stream, steps: steps}, a[0] == "1")
	}
	stable := 1
	for i := range views {
		if !bytes.Equal(views[i], copies[i]) {
			stable = 0
		}
	}
	if strings.HasPrefix(a[1], "gen:") {
		// large streams: report a digest (count, total length, lengths of first/last records, checksum)
		sum, total := uint32(0), 0
		for _, c := range copies {
			total += len(c)
			for _, b := range c {
				sum = sum*31 + uint32(b)
			}
			sum = sum*31 + 7
		}
		return fmt.Sprintf("digest:%d:%d:%d %d", len(copies), total, sum, stable)
	}
	return fmt.Sprintf("%s %d", encStrList(copies), stable)
}

// genStream builds a large stream deterministically: gen:<seed>:<total>:<maxRecord>:<delim>
func genStream(spec string) []byte {
	f := strings.Split(spec, ":")
	seed, total, maxRec, delim := atoi(f[1]), atoi(f[2]), atoi(f[3]), byte(atoi(f[4]))
	x := uint32(seed*2654435761 + 12345)
	out := make([]byte, 0, total)
	for len(out) < total {
		x = x*1103515245 + 12345
		n := int(x>>8) % (maxRec + 1)
		for k := 0; k < n && len(out) < total; k++ {
			x = x*1103515245 + 12345
			b := byte('a' + (x>>16)%26)
			out = append(out, b)
		}
		if len(out) < total {
			out = append(out, delim)
		}
	}
	return out
}

func readerGen(r *rand.Rand, count int, emit func(op string, args ...string)) {
	for i := 0; i < count; i++ {
		delimNil := r.Intn(3) == 0
		delim := byte('\n')
		if delimNil {
			delim = 0
		}
		if r.Intn(25) == 0 {
			// large stream crossing the 64 KiB read buffer and the 128 KiB slab
			total := []int{65535, 65536, 65537, 131071, 131072, 131073, 200000, 300000}[r.Intn(8)]
			maxRec := []int{0, 3, 80, 70000, 140000}[r.Intn(5)]
			steps := []string{}
			for k := 0; k < r.Intn(12); k++ {
				steps = append(steps, itoa([]int{1, 100, 65535, 65536, 70000, 4096}[r.Intn(6)]))
			}
			st := "_"
			if len(steps) > 0 {
				st = strings.Join(steps, "/")
			}
			if r.Intn(3) == 0 {
				emit("feedk", itoa(b2i(delimNil)), fmt.Sprintf("gen:%d:%d:%d:%d", r.Intn(1000), total, maxRec, delim), st, itoa(1+r.Intn(5)))
			} else {
				emit("feed", itoa(b2i(delimNil)), fmt.Sprintf("gen:%d:%d:%d:%d", r.Intn(1000), total, maxRec, delim), st)
			}
			continue
		}
		var stream []byte
		n := r.Intn(12)
		for k := 0; k < n; k++ {
			switch r.Intn(5) {
			case 0:
				stream = append(stream, delim)
			case 1:
				stream = append(stream, "\r\n\x00"[r.Intn(3)])
			default:
				stream = append(stream, "ab c\xc3\xa9"[r.Intn(6)])
				if r.Intn(2) == 0 {
					stream = append(stream, 'x')
				}
			}
		}
		steps := []string{}
		for k := 0; k < r.Intn(8); k++ {
			s := itoa(r.Intn(4))
			switch r.Intn(12) {
			case 0:
				s += "e" // data together with EOF: outside what the OS does (known finding F4)
			case 1:
				s += "x"
			}
			steps = append(steps, s)
		}
		if r.Intn(30) == 0 {
			for k := 0; k < 101; k++ {
				steps = append(steps, "0")
			}
		}
		st := "_"
		if len(steps) > 0 {
			st = strings.Join(steps, "/")
		}
		if r.Intn(4) == 0 {
			// header records arriving in reads of their own
			emit("feedk", itoa(b2i(delimNil)), encBytes(stream), st, itoa(1+r.Intn(3)))
		} else {
			emit("feed", itoa(b2i(delimNil)), encBytes(stream), st)
		}
	}
}

func init() { register("reader", &area{gen: readerGen, eval: readerEval}) }
