package main

// Area "key": the input decoder of the light renderer (src/tui/light.go GetChar / escSequence /
// mouseSequence) over an injected byte buffer.
//
//   key dec <mouse 0|1> <yoffset> <buffer bytes> <tty bytes>  => <ev>/<ev>/… | blocked | panic
//
// <ev> = <type>.<char>.<bytes left>[.<y>.<x>.<scroll>.<left>.<down>.<double>.<ctrl>.<alt>.<shift>]
// The tty bytes are what the terminal delivers when GetChar asks for more (incomplete escape
// sequence).

import (
	"math/rand"
	"strings"

	"github.com/junegunn/fzf/src/tui"
)

func keyEval(op string, args []string) string {
	if op != "dec" {
		panic("bad op")
	}
	lines := tui.VerifGetChars(decBytes(args[2]), decBytes(args[3]), args[0] == "1", atoi(args[1]), 4000)
	if len(lines) == 0 {
		return "_"
	}
	out := []string{}
	for _, l := range lines {
		if strings.HasPrefix(l, "panic") {
			out = append(out, "panic")
			continue
		}
		out = append(out, strings.ReplaceAll(l, " ", "."))
	}
	return strings.Join(out, "/")
}

var keySeqs = []string{
	"\x1b[A", "\x1b[B", "\x1b[C", "\x1b[D", "\x1bOA", "\x1bOD", "\x1b\x1b[A", "\x1b\x1b[C", "\x1b[Z", "\x1b[H", "\x1b[F", "\x1bOP", "\x1bOQ", "\x1b[R", "\x1bOS",
	"\x1b[2~", "\x1b[3~", "\x1b[4~", "\x1b[5~", "\x1b[6~", "\x1b[7~", "\x1b[8~", "\x1b[1~", "\x1b[11~", "\x1b[12~", "\x1b[13~", "\x1b[14~", "\x1b[15~",
	"\x1b[17~", "\x1b[18~", "\x1b[19~", "\x1b[20~", "\x1b[21~", "\x1b[23~", "\x1b[24~", "\x1b[200~", "\x1b[201~", "\x1b[3;5~", "\x1b[3;2~", "\x1b[3;9~",
	"\x1b[1;2A", "\x1b[1;2B", "\x1b[1;2C", "\x1b[1;2D", "\x1b[1;3A", "\x1b[1;3D", "\x1b[1;4A", "\x1b[1;4C", "\x1b[1;10A", "\x1b[1;10D", "\x1b[1;5C", "\x1b[1;6D", "\x1b[1;9x",
	"\x1b[12;34R", "\x1b[1;1R", "\x1b[;R", "\x1b\x7f", "\x1b\x1b", "\x1ba", "\x1b\x01", "\x1b\x1a", "\x1b\xc3\xa9", "\x1b\xff", "\x1b", "\x1b[", "\x1bO", "\x1b[1", "\x1b[1;", "\x1b[1;2", "\x1b[1;1", "\x1b[1;10",
	"\x1b[2", "\x1b[20", "\x1b[200", "\x1b[3", "\x1b[3;", "\x1b[3;5", "\x1b[<", "\x1b[<0;1;1M", "\x1b[<0;1;1m", "\x1b[<0;5;7M", "\x1b[<64;3;3M", "\x1b[<65;3;3M", "\x1b[<2;9;9M", "\x1b[<16;2;2M",
	"\x1b[<8;2;2M", "\x1b[<4;2;2m", "\x1b[<32;4;4M", "\x1b[<0;0;1M", "\x1b[<-1;1;1M", "\x1b[<0;1M", "\x1b[<0;1;1;1M", "\x1b[<0;1;x1M", "\x1b[<99999999999999999999;1;1M", "\x1b[<0;+5;-3M", "\x1b[<0;1;1",
	"\x03", "\x07", "\x11", "\x7f", "\x00", "\x1c", "\x1d", "\x1e", "\x1f", "\x01", "\x1a", "\r", "\t", "a", "Z", " ", "~", "\xc3\xa9", "\xe6\x97\xa5", "\xf0\x9f\x98\x80", "\xef\xbf\xbd", "\xff", "\xc3", "\xe6\x97", "\x80",
}

// sequences that decode to an event without asking the terminal for more (with mouse support on)
var keyComplete = []string{
	"\x1b[A", "\x1b[B", "\x1b[C", "\x1b[D", "\x1bOA", "\x1bOD", "\x1b\x1b[A", "\x1b\x1b[C", "\x1b[Z", "\x1b[H", "\x1b[F", "\x1bOP", "\x1bOQ", "\x1bOS",
	"\x1b[2~", "\x1b[3~", "\x1b[4~", "\x1b[5~", "\x1b[6~", "\x1b[7~", "\x1b[8~", "\x1b[1~", "\x1b[20~", "\x1b[21~", "\x1b[23~", "\x1b[24~", "\x1b[200~", "\x1b[201~",
	"\x1b[1;2A", "\x1b[1;2B", "\x1b[1;3A", "\x1b[1;3D", "\x1b[1;4A", "\x1b[1;4C", "\x1b[1;10A", "\x1b[1;10D", "\x1b[1;5C", "\x1b\x7f", "\x1ba", "\x1b\x01", "\x1b\x1a", "\x1b\xc3\xa9",
	"\x1b[<0;1;1M", "\x1b[<0;1;1m", "\x1b[<0;5;7M", "\x1b[<64;3;3M", "\x1b[<65;3;3M", "\x1b[<2;9;9M", "\x1b[<16;2;2M", "\x1b[<8;2;2M", "\x1b[<4;2;2m", "\x1b[<32;4;4M",
	"\x03", "\x07", "\x11", "\x7f", "\x00", "\x1c", "\x1d", "\x1e", "\x1f", "\x01", "\x1a", "\r", "\t", "a", "Z", " ", "~", "\xc3\xa9", "\xe6\x97\xa5", "\xf0\x9f\x98\x80", "\xef\xbf\xbd", "\xff", "\xc3", "\x80",
}

func keyBytes(r *rand.Rand, n int, tame bool) []byte {
	b := []byte{}
	for len(b) < n {
		k := r.Intn(10)
		if tame && k != 9 {
			b = append(b, keyComplete[r.Intn(len(keyComplete))]...)
			continue
		}
		switch k {
		case 0, 1, 2, 3, 4, 5:
			b = append(b, keySeqs[r.Intn(len(keySeqs))]...)
		case 6:
			b = append(b, byte(r.Intn(256)))
		case 7:
			{
				const alpha = "\x1b[<0123456789;;mM~ROA1234"
				b = append(b, alpha[r.Intn(len(alpha))])
			}
		case 8:
			// a mutated sequence: drop or change one byte
			s := []byte(keySeqs[r.Intn(len(keySeqs))])
			if len(s) > 1 {
				i := r.Intn(len(s))
				if r.Intn(2) == 0 {
					s = append(s[:i:i], s[i+1:]...)
				} else {
					{
						const alpha = "0123456789;~[O<mMAR\x1b"
						s[i] = alpha[r.Intn(len(alpha))]
					}
				}
			}
			b = append(b, s...)
		default:
			// a double click: the same press twice
			x, y := 1+r.Intn(5), 1+r.Intn(5)
			p := []byte("\x1b[<0;" + itoa(x) + ";" + itoa(y) + "M")
			rel := []byte("\x1b[<0;" + itoa(x) + ";" + itoa(y) + "m")
			b = append(b, p...)
			b = append(b, rel...)
			if r.Intn(3) > 0 {
				b = append(b, p...)
				b = append(b, rel...)
			}
		}
	}
	return b
}

func keyGen(r *rand.Rand, count int, emit func(op string, args ...string)) {
	for i := 0; i < count; i++ {
		n := []int{1, 1, 2, 3, 5, 8, 12, 30}[r.Intn(8)]
		if r.Intn(200) == 0 {
			n = 3000
		}
		tame := r.Intn(10) < 7 // mostly sequences that do not make the decoder wait for more input
		buf := keyBytes(r, n, tame)
		// cut the buffer somewhere: the tail arrives later
		tty := []byte{}
		if !tame && r.Intn(3) == 0 && len(buf) > 1 {
			k := 1 + r.Intn(len(buf)-1)
			buf, tty = buf[:k], buf[k:]
		} else if r.Intn(2) == 0 {
			tty = keyBytes(r, 1+r.Intn(4), tame)
		}
		if len(buf) == 0 {
			buf = []byte{'a'}
		}
		emit("dec", itoa(b2i(tame || r.Intn(4) > 0)), itoa([]int{0, 0, 0, 3, 10}[r.Intn(5)]), encBytes(buf), encBytes(tty))
	}
}

func init() { register("key", &area{gen: keyGen, eval: keyEval}) }
