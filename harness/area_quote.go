package main

// Area "quote": QuoteEntry, escapeSingleQuote (tmux re-launch) and replacePlaceholder, with the
// expansion handed to the real /bin/sh (dash) and bash.
//
//   quote entry <posix|fish> <str>                    => <quoted> <sh argv|-> <bash argv|->
//   quote tmux <args>                                 => <arg string> <sh argv> <bash argv>
//   quote expand <parts> <query> <delim> <items> <sel> => <expansion> <sh argv> <bash argv>
//
//   <parts>  "|"-joined byte strings: literal words and placeholders, joined by blanks into the template
//   <items>  "|"-joined lines; the first is the current item; <sel> = comma list of indexes into
//            <items> that are selected ("-" = none: {+} then refers to the current item only)
//   argv     "|"-joined words the shell passed on ("_" none), "fail" if the shell reported an error

import (
	"bytes"
	"context"
	"math/rand"
	"os"
	"os/exec"
	"strings"
	"time"

	fzf "github.com/junegunn/fzf/src"
	"github.com/junegunn/fzf/src/util"
)

var quoteDir string

func shellArgv(shell string, cmdline string) string {
	if quoteDir == "" {
		quoteDir, _ = os.MkdirTemp("", "verif-quote")
	}
	ctx, cancel := context.WithTimeout(context.Background(), 5*time.Second)
	defer cancel()
	cmd := exec.CommandContext(ctx, shell, "-c", "printf '%s\\0' X "+cmdline)
	cmd.Dir = quoteDir
	cmd.Env = []string{"PATH=/usr/bin:/bin"}
	var out bytes.Buffer
	cmd.Stdout = &out
	if err := cmd.Run(); err != nil {
		return "fail"
	}
	parts := bytes.Split(out.Bytes(), []byte{0})
	if len(parts) < 2 || string(parts[0]) != "X" {
		return "fail"
	}
	parts = parts[1 : len(parts)-1]
	return encStrList(parts)
}

func quoteEval(op string, a []string) string {
	switch op {
	case "entry":
		s := string(decBytes(a[1]))
		if a[0] == "fish" {
			return encStr(util.NewExecutor("fish -c").QuoteEntry(s)) + " - -"
		}
		q := util.NewExecutor("sh -c").QuoteEntry(s)
		if strings.ContainsRune(s, 0) {
			return encStr(q) + " - -"
		}
		return encStr(q) + " " + shellArgv("/bin/sh", q) + " " + shellArgv("/bin/bash", q)
	case "tmux":
		args := decStrList(a[0])
		parts := []string{}
		for _, x := range args {
			parts = append(parts, fzf.VerifEscapeSingleQuote(string(x)))
		}
		s := strings.Join(parts, " ")
		return encStr(s) + " " + shellArgv("/bin/sh", s) + " " + shellArgv("/bin/bash", s)
	case "expand":
		parts := decStrList(a[0])
		ps := []string{}
		for _, p := range parts {
			ps = append(ps, string(p))
		}
		template := strings.Join(ps, " ")
		lines := decStrList(a[3])
		var cur *fzf.Item
		items := []*fzf.Item{}
		for i, l := range lines {
			items = append(items, fzf.VerifNewItem(l, int32(i)))
		}
		if len(items) > 0 {
			cur = items[0]
		}
		list := []*fzf.Item{cur}
		if a[4] == "-" {
			list = append(list, cur)
		} else {
			for _, k := range decInts(a[4]) {
				list = append(list, items[k])
			}
		}
		exp, temps := fzf.VerifReplacePlaceholder(template, string(decBytes(a[1])), list, parseDelim(a[2]), "sh -c", false)
		for _, t := range temps {
			os.Remove(t)
		}
		if strings.ContainsRune(exp, 0) {
			return encStr(exp) + " - -"
		}
		return encStr(exp) + " " + shellArgv("/bin/sh", exp) + " " + shellArgv("/bin/bash", exp)
	}
	panic("bad op")
}

var nastyPieces = []string{"a", "b c", "'", "\"", "$HOME", "$(echo x)", "`id`", "\\", "\n", "*", "?", "[a]", ";", "&", "|", ">", "~", "!", "#", "{x,y}", "é", "  ", "\t", "''", "'\\''", "-n", "%s", "=",
	// text that looks like a placeholder: it is data, and stays data after the expansion
	"{}", "{+}", "{1}", "{q}", "{n}", "\\{}", "{+1}", "{f}"}

func nastyString(r *rand.Rand) string {
	var sb strings.Builder
	n := r.Intn(5)
	for i := 0; i < n; i++ {
		sb.WriteString(nastyPieces[r.Intn(len(nastyPieces))])
	}
	return sb.String()
}

func quoteGen(r *rand.Rand, count int, emit func(op string, args ...string)) {
	words := []string{"echo", "cat", "--opt", "x/y.z", "A_1", "-"}
	phs := []string{"{}", "{q}", "{+}", "{n}", "{+n}", "{1}", "{-1}", "{2..}", "{+1}", "{..2}", "{s1}", "{+2}", "\\{}", "\\{q}", "{}", "{+}",
		"{1..2}", "{+1..2}", "{s2}", "{+s1..3}", "{2..3}", "{s..2}"}
	delimLines := []string{"a,,b", "x::y:", "1, 2 , 3", "--->b", "a:b::", ",,", "k: v :", "p,q,,r,", " a , b ", ":x"}
	for i := 0; i < count; i++ {
		switch r.Intn(6) {
		case 0:
			emit("entry", []string{"posix", "posix", "fish"}[r.Intn(3)], encStr(nastyString(r)))
		case 1:
			n := r.Intn(4)
			args := [][]byte{}
			for k := 0; k < n; k++ {
				args = append(args, []byte(nastyString(r)))
			}
			emit("tmux", encStrList(args))
		default:
			np := 1 + r.Intn(4)
			parts := [][]byte{}
			for k := 0; k < np; k++ {
				if r.Intn(3) == 0 {
					parts = append(parts, []byte(words[r.Intn(len(words))]))
				} else {
					parts = append(parts, []byte(phs[r.Intn(len(phs))]))
				}
			}
			nl := r.Intn(4)
			lines := [][]byte{}
			for k := 0; k < nl; k++ {
				l := nastyString(r)
				if r.Intn(3) == 0 {
					l = nastyString(r) + " " + nastyString(r) + " " + nastyString(r)
				}
				if r.Intn(4) == 0 {
					l = delimLines[r.Intn(len(delimLines))]
				}
				lines = append(lines, []byte(l))
			}
			sel := "-"
			if nl > 0 && r.Intn(2) == 0 {
				xs := []int{}
				for k := 0; k < 1+r.Intn(3); k++ {
					xs = append(xs, r.Intn(nl))
				}
				sel = encInts(xs)
			}
			delim := "awk"
			if r.Intn(3) == 0 {
				delim = "d:" + encStr([]string{":", " ", ",", ", ", "->", "::"}[r.Intn(6)])
			}
			emit("expand", encStrList(parts), encStr(nastyString(r)), delim, encStrList(lines), sel)
		}
	}
}

func init() { register("quote", &area{gen: quoteGen, eval: quoteEval}) }
