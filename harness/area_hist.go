package main

// Area "hist": src/history.go driven the way terminal.go drives it.
//
//   hist sess <file|!> <maxSize> <navs> <submit>  => <file after> <input> <cursor> <nlines>
//
// <file> "!" = the file does not exist. <navs> = "/"-joined tokens p | n | e:<str>, "_" if none.

import (
	"math/rand"
	"os"
	"path/filepath"
	"strings"

	fzf "github.com/junegunn/fzf/src"
)

func histEval(op string, args []string) string {
	if op != "sess" {
		panic("bad op")
	}
	dir, err := os.MkdirTemp("", "verif-hist")
	if err != nil {
		panic(err)
	}
	defer os.RemoveAll(dir)
	path := filepath.Join(dir, "h")
	if args[0] != "!" {
		if err := os.WriteFile(path, decBytes(args[0]), 0600); err != nil {
			panic(err)
		}
	}
	h, err := fzf.NewHistory(path, atoi(args[1]))
	if err != nil {
		return "reject"
	}
	input := ""
	if args[2] != "_" {
		for _, tok := range strings.Split(args[2], "/") {
			switch {
			case tok == "p":
				h.VerifOverride(input)
				input = h.VerifPrevious()
			case tok == "n":
				h.VerifOverride(input)
				input = h.VerifNext()
			case strings.HasPrefix(tok, "e:"):
				input = string(decBytes(tok[2:]))
			default:
				panic("bad nav " + tok)
			}
		}
	}
	cursor, nlines := h.VerifCursor(), len(h.VerifLines())
	if args[3] == "1" {
		h.VerifAppend(input)
	}
	data, err := os.ReadFile(path)
	if err != nil {
		panic(err)
	}
	return encBytes(data) + " " + encBytes([]byte(input)) + " " + itoa(cursor) + " " + itoa(nlines)
}

func histGen(r *rand.Rand, count int, emit func(op string, args ...string)) {
	word := func() []byte {
		n := r.Intn(4)
		if r.Intn(8) == 0 {
			n = 0
		}
		b := make([]byte, n)
		for i := range b {
			b[i] = "abc xyz\t'\xc3\xa9"[r.Intn(11)]
		}
		return b
	}
	for i := 0; i < count; i++ {
		// initial file
		file := "!"
		entries := [][]byte{}
		switch r.Intn(6) {
		case 0: // missing
		case 1:
			file = "-"
		default:
			var sb []byte
			n := r.Intn(7)
			for j := 0; j < n; j++ {
				if r.Intn(10) > 0 {
					w := word()
					entries = append(entries, w)
					sb = append(sb, w...)
				}
				if j < n-1 || r.Intn(3) > 0 {
					sb = append(sb, '\n')
				}
			}
			if r.Intn(8) == 0 {
				sb = append([]byte("\n"), sb...)
			}
			file = encBytes(sb)
		}
		max := 1 + r.Intn(5)
		navs := []string{}
		k := r.Intn(9)
		if r.Intn(4) == 0 {
			k = 8 + r.Intn(12)
		}
		for j := 0; j < k; j++ {
			switch r.Intn(6) {
			case 0, 1:
				navs = append(navs, "p")
			case 2:
				navs = append(navs, "n")
			case 3:
				// edit to the text of a stored entry (e.g. back to the original)
				if len(entries) > 0 {
					navs = append(navs, "e:"+encBytes(entries[r.Intn(len(entries))]))
				} else {
					navs = append(navs, "e:"+encBytes(word()))
				}
			default:
				navs = append(navs, "e:"+encBytes(word()))
			}
		}
		ns := "_"
		if len(navs) > 0 {
			ns = strings.Join(navs, "/")
		}
		emit("sess", file, itoa(max), ns, itoa(b2i(r.Intn(4) > 0)))
	}
}

func init() { register("hist", &area{gen: histGen, eval: histEval}) }
