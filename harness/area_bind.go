package main

// Area "bind": --bind parsing and option parsing (src/options.go).
//
//   bind mask <str>                      => <masked>
//   bind keymap <str> <intent>           => ok <parsed> <expected> | reject
//   bind opts <env words|_> <argv|_>     => ok <dump> | reject
//
//   <intent>  ";"-joined groups  <keys>=<acts>  ; keys "+"-joined key names (bytes), acts "&"-joined name~arg (bytes, "-" none)
//   <parsed>/<expected>  ";"-joined, sorted:  <type>.<char>=<name>~<arg>&…
//   <dump>    ","-joined key=value (values as bytes)

import (
	"fmt"
	"math/rand"
	"os"
	"sort"
	"strings"

	fzf "github.com/junegunn/fzf/src"
)

func dumpKeymap(m map[[2]int][]fzf.VerifBoundAction) string {
	parts := []string{}
	for k, acts := range m {
		as := []string{}
		for _, a := range acts {
			as = append(as, a.Name+"~"+encStr(a.Arg))
		}
		parts = append(parts, fmt.Sprintf("%d.%d=%s", k[0], k[1], strings.Join(as, "&")))
	}
	sort.Strings(parts)
	if len(parts) == 0 {
		return "_"
	}
	return strings.Join(parts, ";")
}

func bindEval(op string, a []string) string {
	switch op {
	case "mask":
		return encStr(fzf.VerifMaskActionContents(string(decBytes(a[0]))))
	case "keymap":
		got, err := fzf.VerifParseKeymap(string(decBytes(a[0])))
		if err != nil {
			return "reject"
		}
		// expected: from the intent, with key names resolved by parseKeyChords
		exp := map[[2]int][]fzf.VerifBoundAction{}
		if a[1] != "_" {
			for _, grp := range strings.Split(a[1], ";") {
				kv := strings.SplitN(grp, "=", 2)
				acts := []fzf.VerifBoundAction{}
				for _, x := range strings.Split(kv[1], "&") {
					na := strings.SplitN(x, "~", 2)
					acts = append(acts, fzf.VerifBoundAction{Name: string(decBytes(na[0])), Arg: string(decBytes(na[1]))})
				}
				for _, kn := range strings.Split(kv[0], "+") {
					evs, err := fzf.VerifParseKeyChords(string(decBytes(kn)))
					if err != nil || len(evs) != 1 {
						return "bad-key"
					}
					exp[evs[0]] = acts // a later group for the same key replaces the earlier binding
				}
			}
		}
		return "ok " + dumpKeymap(got) + " " + dumpKeymap(exp)
	case "opts":
		env, args := "", []string{}
		if a[0] != "_" {
			ws := []string{}
			for _, w := range decStrList(a[0]) {
				ws = append(ws, "'"+strings.ReplaceAll(string(w), "'", "'\\''")+"'")
			}
			env = strings.Join(ws, " ")
		}
		if a[1] != "_" {
			for _, w := range decStrList(a[1]) {
				args = append(args, string(w))
			}
		}
		os.Setenv("FZF_DEFAULT_OPTS", env)
		os.Unsetenv("FZF_DEFAULT_OPTS_FILE")
		d, err := fzf.VerifOptionsDump(true, args)
		os.Unsetenv("FZF_DEFAULT_OPTS")
		if err != nil {
			return "reject"
		}
		keys := []string{}
		for k := range d {
			keys = append(keys, k)
		}
		sort.Strings(keys)
		parts := []string{}
		for _, k := range keys {
			parts = append(parts, k+"="+encStr(d[k]))
		}
		return "ok " + strings.Join(parts, ";")
	}
	panic("bad op")
}

var bindKeys = []string{"a", "b", "z", "ctrl-a", "ctrl-x", "alt-b", "enter", "f1", "tab", "space", "esc", "up", "?", "!", "alt-enter", "ctrl-alt-a", "1", "page-up"}
var plainActs = []string{"up", "down", "accept", "abort", "first", "last", "toggle", "toggle-all", "select-all", "clear-query", "beginning-of-line", "kill-line", "yank", "ignore"}
var argActs = []string{"execute", "execute-silent", "reload", "change-query", "change-prompt", "print", "preview", "transform-query", "change-header", "become", "reload-sync"}
var argTexts = []string{"echo {}", "ls -l", "a+b", "x,y", "k:v", "f(x)", "[1]", "{q}", "<tag>", "a~b", "100%", "p|q", "", "  ", "x;y", "$1", "a+b,c:d", "don't", "#!", "/", "^$", "up+down", "a)b", "q]r", "echo (nested (parens))"}

func renderAct(r *rand.Rand, name, arg string, last bool) (string, bool) {
	if r.Intn(2) == 0 {
		name = strings.ToUpper(name[:1]) + name[1:] // action names are case-insensitive
	}
	forms := []string{"()", "[]", "{}", "<>", "~~", "!!", "@@", "##", "$$", "%%", "^^", "&&", "**", ";;", "//", "||"}
	if last && r.Intn(4) == 0 {
		return name + ":" + arg, true
	}
	f := forms[r.Intn(len(forms))]
	closer := f[1:]
	// the argument must not close itself: no <closer> followed by '+' or ',' or at the very end … unless it is the real end
	if strings.Contains(arg, closer+"+") || strings.Contains(arg, closer+",") || strings.HasSuffix(arg, closer) {
		return "", false
	}
	return name + f[:1] + arg + closer, true
}

func bindGen(r *rand.Rand, count int, emit func(op string, args ...string)) {
	junk := []string{":", "+", ",", "execute", "(", ")", "a", "reload", "[", "]", "~", "up", "change-query", "x", " ", "::", ",,,", ",:", "+:", "pos", "put", "é"}
	for i := 0; i < count; i++ {
		switch r.Intn(6) {
		case 0:
			var sb strings.Builder
			for k := 0; k < r.Intn(10); k++ {
				sb.WriteString(junk[r.Intn(len(junk))])
			}
			s := sb.String()
			if r.Intn(2) == 0 {
				emit("mask", encStr(s))
			} else {
				emit("keymap", encStr(s), "_")
			}
		case 1:
			// option vectors from the modelled vocabulary
			gen := func() [][]byte {
				ws := [][]byte{}
				for k := 0; k < r.Intn(6); k++ {
					switch r.Intn(9) {
					case 0, 1, 2, 3:
						ws = append(ws, []byte([]string{"--cycle", "--no-cycle", "--tac", "--no-tac", "-i", "+i", "--smart-case", "-e", "+e", "-x", "+x", "+s", "--ansi",
							"--no-ansi", "--read0", "--no-read0", "--print-query", "--no-print-query", "-1", "+1", "-0", "+0", "--literal", "--no-literal",
							"--sync", "--no-sync", "--reverse", "--no-reverse", "--exact", "--no-extended"}[r.Intn(30)]))
					case 4:
						v := []string{"default", "reverse", "reverse-list", "bogus"}[r.Intn(4)]
						if r.Intn(2) == 0 {
							ws = append(ws, []byte("--layout="+v))
						} else {
							ws = append(ws, []byte("--layout"), []byte(v))
						}
					case 5:
						v := []string{"> ", "", "a=b", "--tac", "x y"}[r.Intn(5)]
						if r.Intn(2) == 0 {
							ws = append(ws, []byte("--prompt="+v))
						} else {
							ws = append(ws, []byte("--prompt"), []byte(v))
						}
					case 6:
						v := []string{"foo", "", "-i", "a b"}[r.Intn(4)]
						ws = append(ws, []byte([]string{"-q", "--query"}[r.Intn(2)]), []byte(v))
					case 7:
						o := []string{"--tabstop", "--scroll-off", "--header-lines"}[r.Intn(3)]
						v := []string{"0", "1", "4", "-1", "x", "10"}[r.Intn(6)]
						if r.Intn(2) == 0 {
							ws = append(ws, []byte(o+"="+v))
						} else {
							ws = append(ws, []byte(o), []byte(v))
						}
					default:
						ws = append(ws, []byte([]string{"--cycle=1", "--bogus", "--prompt", "--tabstop"}[r.Intn(4)]))
					}
				}
				return ws
			}
			env := "_"
			if r.Intn(2) == 0 {
				env = encStrList(gen())
			}
			emit("opts", env, encStrList(gen()))
		default:
			ngroups := 1 + r.Intn(3)
			groups, intents := []string{}, []string{}
			ok := true
			for g := 0; g < ngroups; g++ {
				nk := 1 + r.Intn(2)
				keys := []string{}
				for k := 0; k < nk; k++ {
					keys = append(keys, bindKeys[r.Intn(len(bindKeys))])
				}
				na := 1 + r.Intn(3)
				rendered, intent := []string{}, []string{}
				for k := 0; k < na; k++ {
					lastOfAll := g == ngroups-1 && k == na-1
					if r.Intn(2) == 0 {
						n := plainActs[r.Intn(len(plainActs))]
						rendered = append(rendered, n)
						intent = append(intent, encStr(n)+"~-")
					} else {
						n, arg := argActs[r.Intn(len(argActs))], argTexts[r.Intn(len(argTexts))]
						s, good := renderAct(r, n, arg, lastOfAll)
						if !good {
							ok = false
							break
						}
						rendered = append(rendered, s)
						intent = append(intent, encStr(n)+"~"+encStr(arg))
					}
				}
				ks := []string{}
				for _, k := range keys {
					ks = append(ks, encStr(k))
				}
				groups = append(groups, strings.Join(keys, ",")+":"+strings.Join(rendered, "+"))
				intents = append(intents, strings.Join(ks, "+")+"="+strings.Join(intent, "&"))
			}
			if !ok {
				i--
				continue
			}
			emit("keymap", encStr(strings.Join(groups, ",")), strings.Join(intents, ";"))
		}
	}
}

func init() { register("bind", &area{gen: bindGen, eval: bindEval}) }
