package main

// Area "bind": --bind parsing and option parsing (src/options.go).
//
//   bind mask <str>                      => <masked>
//   bind keymap <str> <intent>           => ok <parsed> <expected> | reject
//   bind opts <env words|_> <argv|_>     => ok <dump> | reject
//   bind override <env 1|_> <prefix words> <form1> <form2>  => <st(prefix+f1+f2)> <st(prefix+f2)> <st(f1)> <st(f2)> <equal> <first difference> <panic>
//
//   <intent>  ";"-joined groups  <keys>=<acts>  ; keys "+"-joined key names (bytes), acts "&"-joined name~arg (bytes, "-" none)
//   <parsed>/<expected>  ";"-joined, sorted:  <type>.<char>=<name>~<arg>&…
//   <dump>    ","-joined key=value (values as bytes)

import (
	"encoding/json"
	_ "embed"
	"fmt"
	"math/rand"
	"os"
	"regexp"
	"sort"
	"strings"

	fzf "github.com/junegunn/fzf/src"
)

func dumpKeymap(m map[[2]int][]fzf.VerifBoundAction) string {
	parts := []string{}
	for k, acts := range m {
		as := []string{}
		for _, a := range acts {
			as = append(as, a.Name+"~"+encStr(a.Arg))
		}
		parts = append(parts, fmt.Sprintf("%d.%d=%s", k[0], k[1], strings.Join(as, "&")))
	}
	sort.Strings(parts)
	if len(parts) == 0 {
		return "_"
	}
	return strings.Join(parts, ";")
}

func bindEval(op string, a []string) string {
	switch op {
	case "mask":
		return encStr(fzf.VerifMaskActionContents(string(decBytes(a[0]))))
	case "keymap":
		got, err := fzf.VerifParseKeymap(string(decBytes(a[0])))
		if err != nil {
			return "reject"
		}
		// expected: from the intent, with key names resolved by parseKeyChords
		exp := map[[2]int][]fzf.VerifBoundAction{}
		if a[1] != "_" && a[1] != "!" {
			for _, grp := range strings.Split(a[1], ";") {
				kv := strings.SplitN(grp, "=", 2)
				acts := []fzf.VerifBoundAction{}
				appendTo := strings.HasPrefix(kv[1], "+")
				kv[1] = strings.TrimPrefix(kv[1], "+")
				for _, x := range strings.Split(kv[1], "&") {
					na := strings.SplitN(x, "~", 2)
					acts = append(acts, fzf.VerifBoundAction{Name: string(decBytes(na[0])), Arg: string(decBytes(na[1]))})
				}
				seen := map[[2]int]bool{}
				for _, kn := range strings.Split(kv[0], "+") {
					evs, err := fzf.VerifParseKeyChords(string(decBytes(kn)))
					if err != nil || len(evs) != 1 {
						return "bad-key"
					}
					if seen[evs[0]] { // a key list is a set
						continue
					}
					seen[evs[0]] = true
					if appendTo { // "key:+actions" extends what the key is bound to so far
						exp[evs[0]] = append(append([]fzf.VerifBoundAction{}, exp[evs[0]]...), acts...)
					} else {
						exp[evs[0]] = acts // a later group for the same key replaces the earlier binding
					}
				}
			}
		}
		return "ok " + dumpKeymap(got) + " " + dumpKeymap(exp)
	case "override":
		// a[0] env words | a[1] prefix words | a[2] first form | a[3] second form
		words := func(x string) []string {
			out := []string{}
			if x != "_" {
				for _, w := range decStrList(x) {
					out = append(out, string(w))
				}
			}
			return out
		}
		quote := func(ws []string) string {
			qs := []string{}
			for _, w := range ws {
				qs = append(qs, "'"+strings.ReplaceAll(w, "'", "'\\''")+"'")
			}
			return strings.Join(qs, " ")
		}
		env, g, f1, f2 := words(a[0]), words(a[1]), words(a[2]), words(a[3])
		run := func(env []string, args []string) (string, string) {
			os.Setenv("FZF_DEFAULT_OPTS", quote(env))
			os.Unsetenv("FZF_DEFAULT_OPTS_FILE")
			defer os.Unsetenv("FZF_DEFAULT_OPTS")
			return fzf.VerifOptionsFull(true, args)
		}
		cat := func(xs ...[]string) []string {
			out := []string{}
			for _, x := range xs {
				out = append(out, x...)
			}
			return out
		}
		run0 := run
		run = func(env []string, args []string) (string, string) {
			st, d := run0(env, args)
			if st == "ok" {
				// not part of the configuration: the position of --height / --tmux on the command line
				// (only their relative order matters), and the info prefix of a style that has none
				d = reIndex.ReplaceAllString(d, " index:_")
				if !strings.Contains(d, " InfoStyle:2 ") && !strings.Contains(d, " InfoStyle:3 ") {
					d = rePrefix.ReplaceAllString(d, " InfoPrefix:_ ")
				}
			}
			return st, d
		}
		s12, d12 := run(env, cat(g, f1, f2))
		s2, d2 := run(nil, cat(g, f2))
		if len(env) > 0 { // the environment layer carries the first form
			s12, d12 = run(cat(g, f1), f2)
			s2, d2 = run(g, f2)
		}
		sf1, _ := run(nil, f1)
		sf2, _ := run(nil, f2)
		eq, diff := 1, ""
		if s12 == "ok" && s2 == "ok" && d12 != d2 {
			eq = 0
			i := 0
			for i < len(d12) && i < len(d2) && d12[i] == d2[i] {
				i++
			}
			lo := i - 60
			if lo < 0 {
				lo = 0
			}
			hi := func(d string) int {
				if i+40 < len(d) {
					return i + 40
				}
				return len(d)
			}
			diff = d12[lo:hi(d12)] + " <> " + d2[lo:hi(d2)]
		}
		crash := ""
		if s12 == "crash" {
			crash = d12
		} else if s2 == "crash" {
			crash = d2
		}
		return fmt.Sprintf("%s %s %s %s %d %s %s", s12, s2, sf1, sf2, eq, encStr(diff), encStr(crash))
	case "opts":
		env, args := "", []string{}
		if a[0] != "_" {
			ws := []string{}
			for _, w := range decStrList(a[0]) {
				ws = append(ws, "'"+strings.ReplaceAll(string(w), "'", "'\\''")+"'")
			}
			env = strings.Join(ws, " ")
		}
		if a[1] != "_" {
			for _, w := range decStrList(a[1]) {
				args = append(args, string(w))
			}
		}
		os.Setenv("FZF_DEFAULT_OPTS", env)
		os.Unsetenv("FZF_DEFAULT_OPTS_FILE")
		d, err := fzf.VerifOptionsDump(true, args)
		os.Unsetenv("FZF_DEFAULT_OPTS")
		if err != nil {
			return "reject"
		}
		keys := []string{}
		for k := range d {
			keys = append(keys, k)
		}
		sort.Strings(keys)
		parts := []string{}
		for _, k := range keys {
			parts = append(parts, k+"="+encStr(d[k]))
		}
		return "ok " + strings.Join(parts, ";")
	}
	panic("bad op")
}

var bindKeys = []string{"a", "b", "z", "ctrl-a", "ctrl-x", "alt-b", "enter", "f1", "tab", "space", "esc", "up", "?", "!", "alt-enter", "ctrl-alt-a", "1", "page-up"}

// keys whose names contain the separators of the --bind grammar: accepted as the last key of a list
var sepKeys = []string{"alt-:", "alt-+", "alt-,", ":", "+", ",", "alt-:", "alt-+"}
var plainActs = []string{"up", "down", "accept", "abort", "first", "last", "toggle", "toggle-all", "select-all", "clear-query", "beginning-of-line", "kill-line", "yank", "ignore"}
var argActs = []string{"execute", "execute-silent", "reload", "change-query", "change-prompt", "print", "preview", "transform-query", "change-header", "become", "reload-sync"}
var argTexts = []string{"echo {}", "ls -l", "a+b", "x,y", "k:v", "f(x)", "[1]", "{q}", "<tag>", "a~b", "100%", "p|q", "", "  ", "x;y", "$1", "a+b,c:d", "don't", "#!", "/", "^$", "up+down", "a)b", "q]r", "echo (nested (parens))",
	// several lines; a line other than the last ends with a character that could close the argument
	"x=$(date)\necho $x", "[ -f {} ]\necho ok", "a)\nb+c", "if [ 1 ]\nthen x\nfi", "<a>\n<b>", "p~\nq", "{\n}\n+x", "l1\nl2"}

func renderAct(r *rand.Rand, name, arg string, last bool) (string, bool) {
	if r.Intn(2) == 0 {
		name = strings.ToUpper(name[:1]) + name[1:] // action names are case-insensitive
	}
	forms := []string{"()", "[]", "{}", "<>", "~~", "!!", "@@", "##", "$$", "%%", "^^", "&&", "**", ";;", "//", "||"}
	if last && r.Intn(4) == 0 {
		return name + ":" + arg, true
	}
	f := forms[r.Intn(len(forms))]
	closer := f[1:]
	// the argument must not close itself: no <closer> followed by '+' or ',' or at the very end … unless it is the real end
	if strings.Contains(arg, closer+"+") || strings.Contains(arg, closer+",") || strings.HasSuffix(arg, closer) {
		return "", false
	}
	return name + f[:1] + arg + closer, true
}

// emitOverrideSweep: independent of the random stream, every option followed by every other option
// that writes (at least) the same fields of Options — its twin, its aliases, wider options — in the
// same vector and split between environment and command line; and every option followed by an
// empty word, a lone dash and a non-numeric word where its value (or optional number) would be.
var optLiterals []string

func emitOverrideSweep(emit func(op string, args ...string)) {
	optionVocabulary()
	enc := func(ws []string) string {
		if len(ws) == 0 {
			return "_"
		}
		bs := [][]byte{}
		for _, w := range ws {
			bs = append(bs, []byte(w))
		}
		return encStrList(bs)
	}
	for _, n := range optNames {
		if accumulating[n] || accumulating["--"+strings.TrimPrefix(n, "--no-")] {
			continue
		}
		f1 := optForms[n][0]
		seconds := append([]string{n}, coveredBy(n)...)
		for k, n2 := range seconds {
			f2 := optForms[n2][len(optForms[n2])-1]
			env := "_"
			if k%2 == 1 {
				env = "1"
			}
			emit("override", env, "_", enc(f1), enc(f2))
		}
		for _, junk := range []string{"", "-", "x"} {
			emit("override", "_", "_", enc(f1), enc([]string{n, junk}))
		}
	}
	// options that take a piece of text to draw: values at the edges of what their width checks accept —
	// empty, too narrow, too wide, wide and combining characters, zero-width clusters before and after
	for _, n := range optNames {
		takesValue := false
		for _, f := range optForms[n] {
			if len(f) == 2 {
				takesValue = true
			}
		}
		if !takesValue || !strings.HasPrefix(n, "--") {
			continue
		}
		cosmetic := false
		for _, w := range []string{"marker", "pointer", "ellipsis", "scrollbar", "separator", "gutter", "ghost", "prompt", "label", "header", "footer"} {
			cosmetic = cosmetic || strings.Contains(n, w)
		}
		if !cosmetic {
			continue
		}
		for _, v := range []string{"", "a", "ab", "abc", "abcd", "aabbcc", "aabbccd", "abc\u200b", "\u200babc", "abc\x01", "\x01abc", "aabbcc\u200b", "a\u200bbc",
			"\u65e5\u672c", "\u65e5\u672c\u8a9e", "e\u0301", "abe\u0301", "\t", " ", "\u200b", "a\u0301\u0301\u0301bc", "\U0001f468\u200d\U0001f469\u200d\U0001f467", "\xff", "ab\xff"} {
			emit("override", "_", "_", "_", enc([]string{n + "=" + v}))
		}
	}
	// value-taking long options with every keyword of the option grammar as the whole value, and with
	// pairs of keywords: accepted or rejected, never a crash
	for _, n := range optNames {
		takesValue := false
		for _, f := range optForms[n] {
			if len(f) == 2 {
				takesValue = true
			}
		}
		if !takesValue || !strings.HasPrefix(n, "--") {
			continue
		}
		for k, lit := range optLiterals {
			emit("override", "_", "_", "_", enc([]string{n + "=" + lit}))
			if k%7 == 0 {
				other := optLiterals[(k*13+5)%len(optLiterals)]
				emit("override", "_", "_", "_", enc([]string{n + "=" + lit + "," + other}))
			}
		}
	}
}

func bindGen(r *rand.Rand, count int, emit func(op string, args ...string)) {
	if genSeed%1000 == 0 {
		emitOverrideSweep(emit)
	}
	junk := []string{":", "+", ",", "execute", "(", ")", "a", "reload", "[", "]", "~", "up", "change-query", "x", " ", "::", ",,,", ",:", "+:", "pos", "put", "é"}
	for i := 0; i < count; i++ {
		switch r.Intn(8) {
		case 6, 7:
			emitOverride(r, emit)
		case 0:
			var sb strings.Builder
			for k := 0; k < r.Intn(10); k++ {
				sb.WriteString(junk[r.Intn(len(junk))])
			}
			s := sb.String()
			if r.Intn(2) == 0 {
				emit("mask", encStr(s))
			} else {
				emit("keymap", encStr(s), "_")
			}
		case 2:
			// bare put: allowed exactly for keys that are printable characters
			nk := 1 + r.Intn(3)
			keys, ks, allPrintable := []string{}, []string{}, true
			for k := 0; k < nk; k++ {
				key := bindKeys[r.Intn(len(bindKeys))]
				keys = append(keys, key)
				ks = append(ks, encStr(key))
				if !(len(key) == 1 || key == "space") {
					allPrintable = false
				}
			}
			str := strings.Join(keys, ",") + ":" + []string{"put", "Put", "up+put", "put+down"}[r.Intn(4)]
			if allPrintable {
				emit("keymap", encStr(str), "_")
			} else {
				emit("keymap", encStr(str), "!")
			}
		case 1:
			// option vectors from the modelled vocabulary
			gen := func() [][]byte {
				ws := [][]byte{}
				for k := 0; k < r.Intn(6); k++ {
					switch r.Intn(9) {
					case 0, 1, 2, 3:
						ws = append(ws, []byte([]string{"--cycle", "--no-cycle", "--tac", "--no-tac", "-i", "+i", "--smart-case", "-e", "+e", "-x", "+x", "+s", "--ansi",
							"--no-ansi", "--read0", "--no-read0", "--print-query", "--no-print-query", "-1", "+1", "-0", "+0", "--literal", "--no-literal",
							"--sync", "--no-sync", "--reverse", "--no-reverse", "--exact", "--no-extended"}[r.Intn(30)]))
					case 4:
						v := []string{"default", "reverse", "reverse-list", "bogus"}[r.Intn(4)]
						if r.Intn(2) == 0 {
							ws = append(ws, []byte("--layout="+v))
						} else {
							ws = append(ws, []byte("--layout"), []byte(v))
						}
					case 5:
						v := []string{"> ", "", "a=b", "--tac", "x y"}[r.Intn(5)]
						if r.Intn(2) == 0 {
							ws = append(ws, []byte("--prompt="+v))
						} else {
							ws = append(ws, []byte("--prompt"), []byte(v))
						}
					case 6:
						v := []string{"foo", "", "-i", "a b"}[r.Intn(4)]
						ws = append(ws, []byte([]string{"-q", "--query"}[r.Intn(2)]), []byte(v))
					case 7:
						o := []string{"--tabstop", "--scroll-off", "--header-lines"}[r.Intn(3)]
						v := []string{"0", "1", "4", "-1", "x", "10"}[r.Intn(6)]
						if r.Intn(2) == 0 {
							ws = append(ws, []byte(o+"="+v))
						} else {
							ws = append(ws, []byte(o), []byte(v))
						}
					default:
						ws = append(ws, []byte([]string{"--cycle=1", "--bogus", "--prompt", "--tabstop"}[r.Intn(4)]))
					}
				}
				return ws
			}
			env := "_"
			if r.Intn(2) == 0 {
				env = encStrList(gen())
			}
			emit("opts", env, encStrList(gen()))
		default:
			ngroups := 1 + r.Intn(3)
			groups, intents, firstKeys := []string{}, []string{}, []string{}
			ok := true
			for g := 0; g < ngroups; g++ {
				nk := 1 + r.Intn(2)
				keys := []string{}
				for k := 0; k < nk; k++ {
					key := bindKeys[r.Intn(len(bindKeys))]
					dup := false
					for _, x := range keys {
						dup = dup || x == key
					}
					if !dup { // a key named twice in one list is bound twice (visible with the append form)
						keys = append(keys, key)
					}
				}
				sepLast := false
				if r.Intn(5) == 0 {
					keys = append(keys, sepKeys[r.Intn(len(sepKeys))])
					sepLast = true
				}
				na := 1 + r.Intn(3)
				rendered, intent := []string{}, []string{}
				for k := 0; k < na; k++ {
					lastOfAll := g == ngroups-1 && k == na-1
					if r.Intn(2) == 0 {
						n := plainActs[r.Intn(len(plainActs))]
						rendered = append(rendered, n)
						intent = append(intent, encStr(n)+"~-")
					} else {
						n, arg := argActs[r.Intn(len(argActs))], argTexts[r.Intn(len(argTexts))]
						s, good := renderAct(r, n, arg, lastOfAll)
						if !good {
							ok = false
							break
						}
						rendered = append(rendered, s)
						intent = append(intent, encStr(n)+"~"+encStr(arg))
					}
				}
				ks := []string{}
				for _, k := range keys {
					ks = append(ks, encStr(k))
				}
				plus := ""
				if g > 0 && r.Intn(3) == 0 { // append form; often to keys bound by an earlier group
					plus = "+"
					if r.Intn(2) == 0 {
						prev := firstKeys[r.Intn(len(firstKeys))]
						dup := false
						for _, k := range sepKeys {
							dup = dup || k == prev
						}
						for _, k := range keys {
							dup = dup || k == prev
						}
						if !dup && !sepLast {
							keys = append(keys, prev)
							ks = append(ks, encStr(prev))
						}
					}
				}
				firstKeys = append(firstKeys, keys[0])
				groups = append(groups, strings.Join(keys, ",")+":"+plus+strings.Join(rendered, "+"))
				intents = append(intents, strings.Join(ks, "+")+"="+plus+strings.Join(intent, "&"))
			}
			if !ok {
				i--
				continue
			}
			emit("keymap", encStr(strings.Join(groups, ",")), strings.Join(intents, ";"))
		}
	}
}

// optionVocabulary reads the option names out of the option loop of /repo/src/options.go and finds,
// by asking the parser itself, which forms (`--opt`, `--opt value`, `--opt=value`) are accepted.
var reIndex = regexp.MustCompile(` index:\d+`)
var rePrefix = regexp.MustCompile(` InfoPrefix:"[^"]*" `)
var optForms map[string][][]string
var optNames []string
var optFields map[string]map[string]bool // option -> fields of Options its block assigns (read off the source)

// assignedFields: the full paths `opts.A.b` on the left-hand side of an assignment in one source line
func assignedFields(t string) []string {
	eq := -1
	for i := 1; i+1 < len(t); i++ {
		if t[i] == '=' && t[i+1] != '=' && !strings.ContainsRune("=!<>:+-|&", rune(t[i-1])) {
			eq = i
			break
		}
	}
	if eq < 0 {
		return nil
	}
	lhs := strings.TrimPrefix(strings.TrimSpace(t[:eq]), "if ")
	out := []string{}
	for _, term := range strings.Split(lhs, ",") {
		term = strings.TrimSpace(term)
		if strings.HasPrefix(term, "opts.") && !strings.ContainsAny(term, " ()") {
			out = append(out, strings.TrimPrefix(term, "opts."))
		}
	}
	return out
}

// documentedCoverers: "also sets" relations stated in the man page — they hold whatever the source
// under test assigns where (--scheme "also sets --tiebreak=…")
var documentedCoverers = map[string][]string{"--tiebreak": {"--scheme"}}

// pinnedCovers: the relation as derived from the pinned source (`harness covers > option_covers.json`).
// The relation used is the union of this one and the one derived from the tree under test, so that a
// change to which fields an option assigns cannot take its own pair out of the sweep.
//
//go:embed option_covers.json
var pinnedCoversJSON []byte
var pinnedCovers map[string][]string

func derivedCovers() map[string][]string {
	optionVocabulary()
	out := map[string][]string{}
	for _, n := range optNames {
		saved := pinnedCovers
		pinnedCovers = map[string][]string{}
		c := coveredBy(n)
		pinnedCovers = saved
		if len(c) > 0 {
			out[n] = c
		}
	}
	return out
}

// coveredBy: the options whose block assigns every field that `n`'s block assigns, and the documented ones
func coveredBy(n string) []string {
	if pinnedCovers == nil {
		pinnedCovers = map[string][]string{}
		json.Unmarshal(pinnedCoversJSON, &pinnedCovers)
	}
	out := append([]string{}, documentedCoverers[n]...)
	for _, m := range pinnedCovers[n] {
		known, dup := false, false
		for _, x := range optNames {
			known = known || x == m
		}
		for _, x := range out {
			dup = dup || x == m
		}
		if known && !dup {
			out = append(out, m)
		}
	}
	if len(optFields[n]) == 0 {
		return out
	}
	for _, m := range optNames {
		if m == n || accumulating[m] || accumulating["--"+strings.TrimPrefix(m, "--no-")] {
			continue
		}
		all := true
		for f := range optFields[n] {
			all = all && optFields[m][f]
		}
		dup := false
		for _, x := range out {
			dup = dup || x == m
		}
		if all && !dup {
			out = append(out, m)
		}
	}
	return out
}

func optionVocabulary() {
	if optForms != nil {
		return
	}
	optForms = map[string][][]string{}
	repo := os.Getenv("VERIF_REPO")
	if repo == "" {
		repo = "/repo"
	}
	src, err := os.ReadFile(repo + "/src/options.go")
	if err != nil {
		panic(err)
	}
	// every short word that occurs as a string literal in options.go: the keywords the value parsers
	// know (positions, shapes, styles, flags such as border-native) — candidates for option values
	optLiterals = nil
	seenLit := map[string]bool{}
	for _, m := range regexp.MustCompile(`"([a-z][a-z0-9-]{1,19})"`).FindAllStringSubmatch(string(src), -1) {
		if !seenLit[m[1]] {
			seenLit[m[1]] = true
			optLiterals = append(optLiterals, m[1])
		}
	}
	sort.Strings(optLiterals)
	names := map[string]bool{}
	optFields = map[string]map[string]bool{}
	cur := []string{}
	for _, line := range strings.Split(string(src), "\n") {
		t := strings.TrimSpace(line)
		if !strings.HasPrefix(t, "case \"-") && !strings.HasPrefix(t, "case \"+") {
			if strings.HasPrefix(t, "case ") || strings.HasPrefix(t, "default:") {
				cur = nil
			}
			// fields of Options this option's block assigns
			for _, f := range assignedFields(t) {
				for _, n := range cur {
					optFields[n][f] = true
				}
			}
			continue
		}
		cur = nil
		for _, q := range strings.Split(strings.TrimSuffix(strings.TrimPrefix(t, "case "), ":"), ",") {
			q = strings.Trim(strings.TrimSpace(q), "\"")
			if strings.HasPrefix(q, "-") || strings.HasPrefix(q, "+") {
				names[q] = true
				cur = append(cur, q)
				if optFields[q] == nil {
					optFields[q] = map[string]bool{}
				}
			}
		}
	}
	values := []string{"1", "0", "10", "-1", "foo", "right", "default", "50%", "a,b", "", "never", "ctrl-a", "x:y", "reverse", "hidden",
		"v1", "path", "index", "2..", ":", "rounded", "top", "file,dir", "up", "80%,40%", "dark", "inline", "a:up", "bg:1", "echo {}",
		"localhost:0", "1,2", "100", "sharp", "--tac", "+", "{}", "begin,length"}
	os.Unsetenv("FZF_DEFAULT_OPTS")
	os.Unsetenv("FZF_DEFAULT_OPTS_FILE")
	for n := range names {
		switch n {
		case "--help", "--version", "--man", "--bash", "--zsh", "--fish", "--profile-cpu", "--profile-mem", "--profile-block", "--profile-mutex":
			continue // terminate the program or start profilers
		}
		forms := [][]string{}
		if st, _ := fzf.VerifOptionsFull(false, []string{n}); st == "ok" {
			forms = append(forms, []string{n})
		}
		for _, v := range values {
			if st, _ := fzf.VerifOptionsFull(false, []string{n, v}); st == "ok" {
				// only when the value was really consumed as the option's value
				if st1, _ := fzf.VerifOptionsFull(false, []string{v}); st1 != "ok" || v == "" {
					forms = append(forms, []string{n, v})
				}
			}
			if strings.HasPrefix(n, "--") {
				if st, _ := fzf.VerifOptionsFull(false, []string{n + "=" + v}); st == "ok" {
					forms = append(forms, []string{n + "=" + v})
				}
			}
		}
		if len(forms) > 0 {
			optForms[n] = forms
			optNames = append(optNames, n)
		}
	}
	sort.Strings(optNames)
}

// options whose occurrences accumulate by design (documented): key bindings, colours, the
// preview window and toggles of sets of keys
var accumulating = map[string]bool{"--bind": true, "--color": true, "--preview-window": true, "--expect": true, "--toggle-sort": true}

func emitOverride(r *rand.Rand, emit func(op string, args ...string)) {
	optionVocabulary()
	enc := func(ws []string) string {
		if len(ws) == 0 {
			return "_"
		}
		bs := [][]byte{}
		for _, w := range ws {
			bs = append(bs, []byte(w))
		}
		return encStrList(bs)
	}
	n := optNames[r.Intn(len(optNames))]
	for accumulating[n] || accumulating["--"+strings.TrimPrefix(n, "--no-")] {
		n = optNames[r.Intn(len(optNames))]
	}
	f1 := optForms[n][r.Intn(len(optForms[n]))]
	// the second occurrence: the same option, or its negation / positive twin when there is one
	n2 := n
	if r.Intn(3) == 0 {
		twin := ""
		if strings.HasPrefix(n, "--no-") {
			twin = "--" + strings.TrimPrefix(n, "--no-")
		} else if strings.HasPrefix(n, "--") {
			twin = "--no-" + strings.TrimPrefix(n, "--")
		}
		if _, ok := optForms[twin]; ok {
			n2 = twin
		}
		if cs := coveredBy(n); len(cs) > 0 && r.Intn(2) == 0 {
			n2 = cs[r.Intn(len(cs))] // another option that writes (at least) the same fields
		}
	}
	f2 := optForms[n2][r.Intn(len(optForms[n2]))]
	if r.Intn(4) == 0 { // arbitrary words where a value may be expected: accepted or rejected, never a crash
		junk := []string{"", " ", "-", "--", "=", "99999999999999999999", "1e9", "%", ",", "-5", "0x10", "\xff", "é", ":", "+", "()", "[", "..", "1.."}[r.Intn(19)]
		switch r.Intn(3) {
		case 0:
			f2 = []string{n2, junk}
		case 1:
			f2 = []string{n2 + "=" + junk}
		default:
			f2 = []string{n2, junk, junk}
		}
	}
	g := []string{}
	for k := 0; k < r.Intn(3); k++ {
		o := optNames[r.Intn(len(optNames))]
		g = append(g, optForms[o][r.Intn(len(optForms[o]))]...)
	}
	env := "_"
	if r.Intn(3) == 0 {
		env = "1"
	}
	emit("override", env, enc(g), enc(f1), enc(f2))
}

func init() { register("bind", &area{gen: bindGen, eval: bindEval}) }
