package main

// Area "rank": src/result.go, src/merger.go, src/chunklist.go, Matcher.sliceChunks.
//
//   rank cmp <rank> <rank> <tac>                       => 0|1            (rank = p0.p1.p2.p3.index)
//   rank merge <sorted> <tac> <lists> <probes>         => <item index at each probe>  (lists ";"-joined, ranks "&"-joined)
//   rank frozen <pushes> <snapAt> <tail>  => <snapshots when taken> <the same snapshots re-read at the end>
//   rank pass <pushes> <snapAt> <tail> <tac> <probes>  => <snapshots> <counts> <probe results>
//   rank slice <partitions> <numChunks>                => slices ";"-joined chunk numbers
//   rank points <scheme> <criteria> <line> <offsets> <score> => p0.p1.p2.p3

import (
	"fmt"
	"math/rand"
	"sort"
	"strings"

	fzf "github.com/junegunn/fzf/src"
)

func decRank(s string) fzf.VerifRank {
	f := strings.Split(s, ".")
	var r fzf.VerifRank
	for i := 0; i < 4; i++ {
		r.Points[i] = uint16(atoi(f[i]))
	}
	r.Index = int32(atoi(f[4]))
	return r
}

func encRank(r fzf.VerifRank) string {
	return fmt.Sprintf("%d.%d.%d.%d.%d", r.Points[0], r.Points[1], r.Points[2], r.Points[3], r.Index)
}

func rankEval(op string, a []string) string {
	switch op {
	case "cmp":
		return itoa(b2i(fzf.VerifCompareRanks(decRank(a[0]), decRank(a[1]), a[2] == "1")))
	case "merge":
		lists := [][]fzf.VerifRank{}
		if a[2] != "_" {
			for _, l := range strings.Split(a[2], ";") {
				rs := []fzf.VerifRank{}
				if l != "-" {
					for _, x := range strings.Split(l, "&") {
						rs = append(rs, decRank(x))
					}
				}
				lists = append(lists, rs)
			}
		}
		got := fzf.VerifMergerProbe(lists, a[0] == "1", a[1] == "1", decInts(a[3]))
		xs := make([]int, len(got))
		for i, g := range got {
			xs[i] = int(g)
		}
		return encInts(xs)
	case "pass":
		snaps, counts, got := fzf.VerifChunkScript(atoi(a[0]), decInts(a[1]), atoi(a[2]), a[3] == "1", decInts(a[4]))
		ss := []string{}
		for _, s := range snaps {
			cs := []string{}
			for _, c := range s {
				xs := make([]int, len(c))
				for i, v := range c {
					xs[i] = int(v)
				}
				cs = append(cs, encInts(xs))
			}
			if len(cs) == 0 {
				ss = append(ss, "_")
			} else {
				ss = append(ss, strings.Join(cs, "|"))
			}
		}
		gs := make([]int, len(got))
		for i, g := range got {
			gs[i] = int(g)
		}
		snapStr := "_"
		if len(ss) > 0 {
			snapStr = strings.Join(ss, ";")
		}
		return fmt.Sprintf("%s %s %s", snapStr, encInts(counts), encInts(gs))
	case "frozen":
		atTime, atEnd := fzf.VerifChunkFrozen(atoi(a[0]), decInts(a[1]), atoi(a[2]))
		enc := func(snaps [][][]int32) string {
			ss := []string{}
			for _, s := range snaps {
				cs := []string{}
				for _, c := range s {
					xs := make([]int, len(c))
					for i, v := range c {
						xs[i] = int(v)
					}
					cs = append(cs, encInts(xs))
				}
				if len(cs) == 0 {
					ss = append(ss, "_")
				} else {
					ss = append(ss, strings.Join(cs, "|"))
				}
			}
			if len(ss) == 0 {
				return "_"
			}
			return strings.Join(ss, ";")
		}
		return enc(atTime) + " " + enc(atEnd)
	case "slice":
		parts := []string{}
		for _, s := range fzf.VerifSliceChunks(atoi(a[0]), atoi(a[1])) {
			parts = append(parts, encInts(s))
		}
		if len(parts) == 0 {
			return "_"
		}
		return strings.Join(parts, ";")
	case "points":
		setScheme(a[0])
		fzf.VerifSetCriteria(decInts(a[1]))
		item := fzf.VerifNewItem(decBytes(a[2]), 0)
		offs := [][2]int32{}
		if a[3] != "_" {
			for _, o := range strings.Split(a[3], "+") {
				f := strings.Split(o, ".")
				offs = append(offs, [2]int32{int32(atoi(f[0])), int32(atoi(f[1]))})
			}
		}
		p := fzf.VerifBuildResult(item, offs, atoi(a[4]))
		return fmt.Sprintf("%d.%d.%d.%d", p[0], p[1], p[2], p[3])
	}
	panic("bad op")
}

func genRank(r *rand.Rand, idx int) fzf.VerifRank {
	var k fzf.VerifRank
	for i := 0; i < 4; i++ {
		switch r.Intn(4) {
		case 0:
			k.Points[i] = uint16(r.Intn(3))
		case 1:
			k.Points[i] = uint16(65533 + r.Intn(3))
		case 2:
			k.Points[i] = uint16(r.Intn(65536))
		default:
			k.Points[i] = 7
		}
	}
	k.Index = int32(idx)
	return k
}

func rankGen(r *rand.Rand, count int, emit func(op string, args ...string)) {
	crits := []string{"0", "0,2", "0,5,2", "0,1", "0,3", "0,4", "0,1,2,3", "0,4,5", "0,5", "0,3,4,2"}
	for i := 0; i < count; i++ {
		switch r.Intn(6) {
		case 0:
			a, b := genRank(r, r.Intn(5)), genRank(r, r.Intn(5))
			if r.Intn(3) == 0 {
				b.Points = a.Points
			}
			emit("cmp", encRank(a), encRank(b), itoa(r.Intn(2)))
		case 1, 2:
			sorted, tac := r.Intn(3) > 0, r.Intn(2) == 0
			nl := r.Intn(5)
			lists := []string{}
			idx, total := 0, 0
			for l := 0; l < nl; l++ {
				n := r.Intn(6)
				rs := []fzf.VerifRank{}
				for k := 0; k < n; k++ {
					rs = append(rs, genRank(r, idx))
					idx++
				}
				if sorted {
					sort.SliceStable(rs, func(x, y int) bool {
						return fzf.VerifCompareRanks(rs[x], rs[y], tac) && !fzf.VerifCompareRanks(rs[y], rs[x], tac)
					})
				}
				ss := []string{}
				for _, x := range rs {
					ss = append(ss, encRank(x))
				}
				total += n
				if n == 0 {
					lists = append(lists, "-")
				} else {
					lists = append(lists, strings.Join(ss, "&"))
				}
			}
			probes := []int{}
			np := r.Intn(8)
			for k := 0; k < np && total > 0; k++ {
				probes = append(probes, r.Intn(total))
			}
			if r.Intn(3) == 0 { // sequential read of everything
				probes = probes[:0]
				for k := 0; k < total; k++ {
					probes = append(probes, k)
				}
			}
			ls := "_"
			if nl > 0 {
				ls = strings.Join(lists, ";")
			}
			emit("merge", itoa(b2i(sorted)), itoa(b2i(tac)), ls, encInts(probes))
		case 3:
			pushes := []int{0, 1, 99, 100, 101, 199, 200, 201, 250, 300, 320}[r.Intn(11)]
			if r.Intn(3) == 0 {
				pushes = r.Intn(450)
			}
			tail := 0
			if r.Intn(2) == 0 {
				tail = 1 + r.Intn(pushes+20)
			}
			snapAt := []int{}
			for k := 0; k < r.Intn(3); k++ {
				snapAt = append(snapAt, r.Intn(pushes+1))
			}
			snapAt = append(snapAt, pushes)
			sort.Ints(snapAt)
			probes := []int{}
			eff := pushes
			if tail > 0 && tail < eff {
				eff = tail
			}
			for k := 0; k < 6 && eff > 0; k++ {
				probes = append(probes, r.Intn(eff))
			}
			if eff > 0 {
				probes = append(probes, 0, eff-1)
			}
			emit("pass", itoa(pushes), encInts(snapAt), itoa(tail), itoa(r.Intn(2)), encInts(probes))
			// the same list, with snapshots taken early and re-read after everything else
			early := []int{}
			for k := 0; k < 1+r.Intn(4); k++ {
				early = append(early, r.Intn(pushes+1))
			}
			sort.Ints(early)
			emit("frozen", itoa(pushes), encInts(early), itoa(tail))
			// longer lists: several snapshots, the later ones trimming (--tail) inside chunks that
			// earlier snapshots still share
			fp := 200 + r.Intn(800)
			ft := []int{0, 50, 150, 250, 333, 100, 101}[r.Intn(7)]
			pts := []int{}
			for k := 0; k < 2+r.Intn(4); k++ {
				pts = append(pts, r.Intn(fp+1))
			}
			pts = append(pts, fp)
			sort.Ints(pts)
			emit("frozen", itoa(fp), encInts(pts), itoa(ft))
		case 4:
			emit("slice", itoa(1+r.Intn(40)), itoa(r.Intn(300)))
		default:
			lines := genLines(r)
			line := " foo/bar baz "
			if len(lines) > 0 {
				line = lines[0]
			}
			n := len([]rune(line))
			offs := []string{}
			for k := 0; k < r.Intn(4); k++ {
				b := r.Intn(n + 1)
				e := b + r.Intn(n-b+1)
				if r.Intn(8) == 0 {
					b, e = 0, 0
				}
				offs = append(offs, fmt.Sprintf("%d.%d", b, e))
			}
			os := "_"
			if len(offs) > 0 {
				os = strings.Join(offs, "+")
			}
			score := r.Intn(400)
			if r.Intn(10) == 0 {
				score = 65000 + r.Intn(2000)
			}
			emit("points", []string{"default", "path", "history"}[r.Intn(3)], crits[r.Intn(len(crits))], encStr(line), os, itoa(score))
		}
	}
}

func init() { register("rank", &area{gen: rankGen, eval: rankEval}) }
