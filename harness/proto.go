package main

// Line protocol shared with the Lean driver (lean/Driver/Proto.lean).
//
//   <area> <op> <arg>... => <answer tokens>
//
// Strings (byte or rune lists) are comma-separated decimals, "-" when empty.
// Lists of strings are "|"-joined strings, "_" when the list is empty.

import (
	"strconv"
	"strings"
)

func encInts(xs []int) string {
	if len(xs) == 0 {
		return "-"
	}
	var sb strings.Builder
	for i, x := range xs {
		if i > 0 {
			sb.WriteByte(',')
		}
		sb.WriteString(strconv.Itoa(x))
	}
	return sb.String()
}

func encBytes(b []byte) string {
	xs := make([]int, len(b))
	for i, c := range b {
		xs[i] = int(c)
	}
	return encInts(xs)
}

func encRunes(r []rune) string {
	xs := make([]int, len(r))
	for i, c := range r {
		xs[i] = int(c)
	}
	return encInts(xs)
}

func decInts(s string) []int {
	if s == "-" || s == "" {
		return nil
	}
	parts := strings.Split(s, ",")
	xs := make([]int, len(parts))
	for i, p := range parts {
		v, err := strconv.Atoi(p)
		if err != nil {
			panic("bad int list: " + s)
		}
		xs[i] = v
	}
	return xs
}

func decBytes(s string) []byte {
	xs := decInts(s)
	b := make([]byte, len(xs))
	for i, x := range xs {
		b[i] = byte(x)
	}
	return b
}

func decRunes(s string) []rune {
	xs := decInts(s)
	r := make([]rune, len(xs))
	for i, x := range xs {
		r[i] = rune(x)
	}
	return r
}

func encStrList(xs [][]byte) string {
	if len(xs) == 0 {
		return "_"
	}
	parts := make([]string, len(xs))
	for i, x := range xs {
		parts[i] = encBytes(x)
	}
	return strings.Join(parts, "|")
}

func decStrList(s string) [][]byte {
	if s == "_" {
		return nil
	}
	parts := strings.Split(s, "|")
	out := make([][]byte, len(parts))
	for i, p := range parts {
		out[i] = decBytes(p)
	}
	return out
}

func atoi(s string) int {
	v, err := strconv.Atoi(s)
	if err != nil {
		panic("bad int: " + s)
	}
	return v
}

func itoa(i int) string { return strconv.Itoa(i) }

func b2i(b bool) int {
	if b {
		return 1
	}
	return 0
}
