package main

// Area "filter": the whole filter mode, in-process through fzf.ParseOptions + fzf.Run
// (lines are handed over through Options.Input, so the byte-level reader is not involved;
// area "reader" and the piped process driver cover that).
//
//   filter run <argv seed> <scheme> <tiebreak|-> <exact> <algo> <ext> <case> <literal> <sort> <tac> <nth|-> <withnth|-> <delim> <tail> <hdr> <query> <lines>
//        => <exit code> <printed records>
//
//   case: 0 smart (default), 1 -i, 2 +i ; algo: v1|v2 ; delim: awk | d:<bytes>

import (
	"fmt"
	"math/rand"
	"strings"

	fzf "github.com/junegunn/fzf/src"
	"github.com/junegunn/fzf/src/algo"
)

// filterArgs builds the argument vector for the option set of a case. The options are emitted in
// a seeded random order, preceded by contradicting options that the later ones must override
// (later occurrences win, order among independent options is irrelevant).
func filterArgs(a []string, seed int) []string {
	final := []string{"--scheme=" + a[0]}
	noise := []string{}
	pick := func(r *rand.Rand, xs ...string) string { return xs[r.Intn(len(xs))] }
	r := rand.New(rand.NewSource(int64(seed)))
	if a[1] != "-" {
		final = append(final, "--tiebreak="+string(decBytes(a[1])))
	}
	if a[2] == "1" {
		final = append(final, pick(r, "--exact", "-e"))
		noise = append(noise, pick(r, "+e", "--no-exact"))
	} else if r.Intn(3) == 0 {
		final = append(final, pick(r, "+e", "--no-exact"))
		noise = append(noise, "-e")
	}
	final = append(final, "--algo="+a[3])
	if a[4] == "0" {
		final = append(final, pick(r, "--no-extended", "+x"))
		noise = append(noise, pick(r, "-x", "--extended"))
	} else if r.Intn(3) == 0 {
		final = append(final, pick(r, "-x", "--extended"))
		noise = append(noise, "+x")
	}
	switch a[5] {
	case "0":
		if r.Intn(3) == 0 {
			final = append(final, "--smart-case")
			noise = append(noise, pick(r, "-i", "+i"))
		}
	case "1":
		final = append(final, pick(r, "-i", "--ignore-case"))
		noise = append(noise, "+i")
	case "2":
		final = append(final, pick(r, "+i", "--no-ignore-case"))
		noise = append(noise, "-i")
	}
	if a[6] == "1" {
		final = append(final, "--literal")
		noise = append(noise, "--no-literal")
	} else if r.Intn(3) == 0 {
		final = append(final, "--no-literal")
		noise = append(noise, "--literal")
	}
	if a[7] == "0" {
		final = append(final, pick(r, "--no-sort", "+s"))
	} else if r.Intn(3) == 0 {
		noise = append(noise, "+s")
		final = append(final, "--sort=1000")
	}
	if a[8] == "1" {
		final = append(final, "--tac")
		noise = append(noise, "--no-tac")
	} else if r.Intn(3) == 0 {
		final = append(final, "--no-tac")
		noise = append(noise, "--tac")
	}
	if a[9] != "-" {
		final = append(final, "--nth="+string(decBytes(a[9])))
	}
	if a[10] != "-" {
		final = append(final, "--with-nth="+string(decBytes(a[10])))
	}
	if a[11] != "awk" {
		final = append(final, "--delimiter="+string(decBytes(a[11][2:])))
	}
	if a[12] != "0" {
		final = append(final, "--tail="+a[12])
		noise = append(noise, "--tail=1")
	} else if r.Intn(4) == 0 {
		final = append(final, "--no-tail")
		noise = append(noise, "--tail=2")
	}
	if a[13] != "0" {
		final = append(final, "--header-lines="+a[13])
	}
	final = append(final, "--filter="+string(decRunes(a[14])))
	if seed == 0 {
		return final
	}
	r.Shuffle(len(noise), func(i, j int) { noise[i], noise[j] = noise[j], noise[i] })
	r.Shuffle(len(final), func(i, j int) { final[i], final[j] = final[j], final[i] })
	// --scheme resets the criteria, so an explicit --tiebreak has to follow it
	if a[1] != "-" {
		si, ti := -1, -1
		for k, x := range final {
			if strings.HasPrefix(x, "--scheme=") {
				si = k
			}
			if strings.HasPrefix(x, "--tiebreak=") {
				ti = k
			}
		}
		if ti < si {
			final[si], final[ti] = final[ti], final[si]
		}
	}
	if r.Intn(2) == 0 {
		noise = nil
	}
	return append(noise, final...)
}

func filterEval(op string, a []string) string {
	if op != "run" {
		panic("bad op")
	}
	curScheme = "" // Run re-initialises the algo package
	algo.VerifReset()
	opts, err := fzf.ParseOptions(false, filterArgs(a[1:], atoi(a[0])))
	if err != nil {
		return "2 reject"
	}
	lines := decStrList(a[16])
	in := make(chan string, len(lines)+1)
	for _, l := range lines {
		in <- string(l)
	}
	close(in)
	out := make(chan string, len(lines)+8)
	opts.Input = in
	opts.Output = out
	code, err := fzf.Run(opts)
	close(out)
	if err != nil {
		return fmt.Sprintf("%d error", code)
	}
	recs := [][]byte{}
	for s := range out {
		recs = append(recs, []byte(s))
	}
	return fmt.Sprintf("%d %s", code, encStrList(recs))
}

func filterGen(r *rand.Rand, count int, emit func(op string, args ...string)) {
	schemes := []string{"default", "path", "history"}
	ties := []string{"-", "-", "length", "chunk", "begin", "end", "pathname", "index", "length,begin", "end,length,index", "chunk,pathname", "pathname,length"}
	for i := 0; i < count; i++ {
		lines := genLines(r)
		switch r.Intn(12) {
		case 0: // many lines: several chunks and partitions
			n := []int{99, 100, 101, 250, 3199, 3201}[r.Intn(6)]
			if r.Intn(3) > 0 {
				n = 100 + r.Intn(400)
			}
			lines = lines[:0]
			for k := 0; k < n; k++ {
				lines = append(lines, patWords[r.Intn(len(patWords))]+[]string{"", " ", "/", "-"}[r.Intn(4)]+patWords[r.Intn(len(patWords))])
			}
		case 1:
			lines = nil
		}
		fuzzy, ext := r.Intn(3) > 0, r.Intn(5) > 0
		var query string
		switch {
		case r.Intn(10) == 0:
			query = ""
		case ext:
			query = renderAST(genAST(r, lines), fuzzy)
		default:
			query = genAST(r, lines)[0][0].text
		}
		tie := ties[r.Intn(len(ties))]
		if tie != "-" {
			tie = encStr(tie)
		}
		nth, withnth, delim := "-", "-", "awk"
		if r.Intn(5) == 0 {
			nth = encStr([]string{"1", "2", "-1", "2..", "..2", "1,3"}[r.Intn(6)])
		}
		if r.Intn(6) == 0 {
			withnth = encStr([]string{"1", "2", "-1", "2..", "..2", "2,1", ".."}[r.Intn(7)])
		}
		if (nth != "-" || withnth != "-") && r.Intn(2) == 0 {
			delim = "d:" + encStr([]string{":", "/", " ", "-"}[r.Intn(4)])
		}
		tail, hdr := "0", "0"
		if r.Intn(8) == 0 {
			tail = itoa(1 + r.Intn(len(lines)+2))
		}
		if r.Intn(10) == 0 {
			hdr = itoa(1 + r.Intn(3))
		}
		ls := make([][]byte, len(lines))
		for k, l := range lines {
			ls[k] = []byte(l)
		}
		algo := "v2"
		if r.Intn(4) == 0 {
			algo = "v1"
		}
		emit("run", itoa(r.Intn(100000)), schemes[r.Intn(3)], tie, itoa(b2i(!fuzzy)), algo, itoa(b2i(ext)), itoa(r.Intn(3)), itoa(b2i(r.Intn(4) == 0)),
			itoa(b2i(r.Intn(4) > 0)), itoa(b2i(r.Intn(4) == 0)), nth, withnth, delim, tail, hdr, encRunes([]rune(query)), encStrList(ls))
		_ = strings.Join
	}
}

func init() { register("filter", &area{gen: filterGen, eval: filterEval}) }
