package main

// Area "pat": src/pattern.go — query parsing and evaluation of a parsed pattern on lines.
//
//   pat parse <fuzzy> <case> <norm> <query>                      => <termsets>
//   pat build <fuzzy> <v2> <ext> <case> <norm> <query>           => <text> <cs> <norm> <sortable> <cacheable> <cachekey> <termsets>
//   pat q <scheme> <criteria> <fuzzy> <v2> <ext> <case> <norm> <fwd> <ast> <query> <nth> <delim> <lines>
//        => <per-line results without positions> <per-line results with positions>
//
//   pat qh <scheme> <criteria> <fuzzy> <v2> <ext> <case> <norm> <fwd> <query> <nths ";"-joined> <delim> <lines>
//        => per nth expression (each a later minor revision, the SAME items throughout): per-line results without positions, " "-joined
//
//   <termsets> sets ";"-joined, terms "&"-joined, term = typ:inv:cs:norm:text ; "_" if none
//   <ast>      sets ";"-joined, atoms "&"-joined, atom = kind:inv:text, kind in f e b p s q ; "_" = no AST (raw query)
//   per-line results: ";"-joined entries, "-" = no match, else <b.e+b.e...>:<p0.p1.p2.p3>

import (
	"github.com/junegunn/fzf/src/algo"
	"fmt"
	"math/rand"
	"strings"

	fzf "github.com/junegunn/fzf/src"
	"github.com/junegunn/fzf/src/util"
)

func encTermSets(sets [][]fzf.VerifTerm) string {
	if len(sets) == 0 {
		return "_"
	}
	ss := []string{}
	for _, s := range sets {
		ts := []string{}
		for _, t := range s {
			ts = append(ts, fmt.Sprintf("%d:%d:%d:%d:%s", t.Typ, b2i(t.Inv), b2i(t.CaseSensitive), b2i(t.Normalize), encRunes(t.Text)))
		}
		ss = append(ss, strings.Join(ts, "&"))
	}
	return strings.Join(ss, ";")
}

func caseOf(s string) fzf.Case {
	switch s {
	case "1":
		return fzf.CaseIgnore
	case "2":
		return fzf.CaseRespect
	}
	return fzf.CaseSmart
}

func encStr(s string) string { return encBytes([]byte(s)) }

var patSlab *util.Slab

func patEval(op string, args []string) string {
	switch op {
	case "parse":
		sets := fzf.VerifParseTerms(args[0] == "1", caseOf(args[1]), args[2] == "1", string(decRunes(args[3])))
		return encTermSets(sets)
	case "build":
		p := fzf.VerifBuildPattern(args[0] == "1", args[1] == "1", args[2] == "1", caseOf(args[3]), args[4] == "1", true, false,
			true, nil, fzf.Delimiter{}, decRunes(args[5]))
		i := p.VerifInfo()
		return fmt.Sprintf("%s %d %d %d %d %s %s", encRunes(i.Text), b2i(i.CaseSensitive), b2i(i.Normalize), b2i(i.Sortable),
			b2i(i.Cacheable), encStr(i.CacheKey), encTermSets(i.TermSets))
	case "q":
		setScheme(args[0])
		fzf.VerifSetCriteria(decInts(args[1]))
		var nth []fzf.Range
		if args[10] != "-" {
			var err error
			nth, err = fzf.VerifSplitNth(string(decBytes(args[10])))
			if err != nil {
				return "reject"
			}
		}
		delim := parseDelim(args[11])
		if patSlab == nil {
			c := fzf.VerifConstants()
			patSlab = util.MakeSlab(c["slab16Size"], c["slab32Size"])
		}
		outs := []string{}
		for _, withPos := range []bool{false, true} {
			p := fzf.VerifBuildPattern(args[2] == "1", args[3] == "1", args[4] == "1", caseOf(args[5]), args[6] == "1", args[7] == "1",
				withPos, true, nth, delim, decRunes(args[9]))
			rs := []string{}
			for idx, line := range decStrList(args[12]) {
				item := fzf.VerifNewItem(line, int32(idx))
				ok, offs, pts, _, _ := p.VerifMatchItem(item, withPos, patSlab)
				if !ok {
					rs = append(rs, "-")
					continue
				}
				os := []string{}
				for _, o := range offs {
					os = append(os, fmt.Sprintf("%d.%d", o[0], o[1]))
				}
				rs = append(rs, fmt.Sprintf("%s:%d.%d.%d.%d", strings.Join(os, "+"), pts[0], pts[1], pts[2], pts[3]))
			}
			if len(rs) == 0 {
				outs = append(outs, "_")
			} else {
				outs = append(outs, strings.Join(rs, ";"))
			}
		}
		return strings.Join(outs, " ")
	case "qh":
		setScheme(args[0])
		fzf.VerifSetCriteria(decInts(args[1]))
		delim := parseDelim(args[10])
		if patSlab == nil {
			c := fzf.VerifConstants()
			patSlab = util.MakeSlab(c["slab16Size"], c["slab32Size"])
		}
		items := []*fzf.Item{}
		for idx, line := range decStrList(args[11]) {
			items = append(items, fzf.VerifNewItem(line, int32(idx)))
		}
		outs := []string{}
		for k, nthS := range strings.Split(args[9], ";") {
			var nth []fzf.Range
			if nthS != "-" {
				var err error
				nth, err = fzf.VerifSplitNth(string(decBytes(nthS)))
				if err != nil {
					return "reject"
				}
			}
			p := fzf.VerifBuildPatternRev(args[2] == "1", args[3] == "1", args[4] == "1", caseOf(args[5]), args[6] == "1", args[7] == "1",
				false, true, nth, delim, decRunes(args[8]), k)
			rs := []string{}
			for _, item := range items {
				ok, offs, pts, _, _ := p.VerifMatchItem(item, false, patSlab)
				if !ok {
					rs = append(rs, "-")
					continue
				}
				os := []string{}
				for _, o := range offs {
					os = append(os, fmt.Sprintf("%d.%d", o[0], o[1]))
				}
				rs = append(rs, fmt.Sprintf("%s:%d.%d.%d.%d", strings.Join(os, "+"), pts[0], pts[1], pts[2], pts[3]))
			}
			if len(rs) == 0 {
				outs = append(outs, "_")
			} else {
				outs = append(outs, strings.Join(rs, ";"))
			}
		}
		return strings.Join(outs, " ")
	}
	panic("bad op")
}

// --- generation ---

type atom struct {
	kind byte
	inv  bool
	text string
}

var patWords = []string{"aab", "aaab", "abab", "ababc", "1.1.1.2", "foo", "bar", "Foo", "BAR", "baz", "qux", "a", "b", "ab", "x y", "café", "Éa", "e", "naïve", "日本", "a-b", "f_o", "1", "42", "/", ".go", "src", "ǅ", "o'c", "x$y", "a^b", "a|b", "i!",
	// capitals outside Latin-1 whose lower-case forms the normalisation table knows
	"Łódź", "TOMÁŠ", "Čapek", "Žižka", "Ćma"}

func renderAtom(a atom, fuzzy bool) string {
	t := strings.ReplaceAll(a.text, " ", "\\ ")
	s := ""
	switch a.kind {
	case 'f':
		if !fuzzy || a.inv {
			s = "'" + t
		} else {
			s = t
		}
	case 'e':
		if fuzzy && !a.inv {
			s = "'" + t
		} else {
			s = t
		}
	case 'b':
		s = "'" + t + "'"
	case 'p':
		s = "^" + t
	case 's':
		s = t + "$"
	case 'q':
		s = "^" + t + "$"
	}
	if a.inv {
		s = "!" + s
	}
	return s
}

func genAST(r *rand.Rand, lines []string) [][]atom {
	nsets := 1 + r.Intn(3)
	sets := [][]atom{}
	for i := 0; i < nsets; i++ {
		n := 1
		if r.Intn(3) == 0 {
			n = 2 + r.Intn(2)
		}
		set := []atom{}
		for j := 0; j < n; j++ {
			var text string
			if len(lines) > 0 && r.Intn(4) > 0 {
				// sample from a line so that matches are common
				l := []rune(lines[r.Intn(len(lines))])
				if len(l) > 0 {
					a := r.Intn(len(l))
					b := a + 1 + r.Intn(3)
					if b > len(l) {
						b = len(l)
					}
					text = string(l[a:b])
					if r.Intn(3) == 0 { // fuzzy-ish: drop a character
						text = string(l[a]) + string(l[b-1])
					}
				}
			}
			if text == "" {
				text = patWords[r.Intn(len(patWords))]
			}
			if r.Intn(6) == 0 {
				text = strings.ToUpper(text[:1]) + text[1:]
			} else if r.Intn(4) == 0 {
				// the accent-free lower-case spelling, as one types it
				text = string(algo.NormalizeRunes([]rune(strings.ToLower(text))))
			}
			set = append(set, atom{"febpsq"[r.Intn(6)], r.Intn(4) == 0, text})
		}
		sets = append(sets, set)
	}
	return sets
}

func encAST(sets [][]atom) string {
	ss := []string{}
	for _, s := range sets {
		as := []string{}
		for _, a := range s {
			as = append(as, fmt.Sprintf("%c:%d:%s", a.kind, b2i(a.inv), encRunes([]rune(a.text))))
		}
		ss = append(ss, strings.Join(as, "&"))
	}
	return strings.Join(ss, ";")
}

func renderAST(sets [][]atom, fuzzy bool) string {
	ss := []string{}
	for _, s := range sets {
		as := []string{}
		for _, a := range s {
			as = append(as, renderAtom(a, fuzzy))
		}
		ss = append(ss, strings.Join(as, " | "))
	}
	return strings.Join(ss, " ")
}

func genLines(r *rand.Rand) []string {
	n := r.Intn(8)
	lines := []string{}
	if r.Intn(5) == 0 {
		// lines over a two-letter alphabet: terms sampled from them overlap with themselves, so an
		// occurrence can start inside a partial match that fails
		for i := 0; i < 2+r.Intn(5); i++ {
			var sb strings.Builder
			for k := 0; k < 3+r.Intn(7); k++ {
				sb.WriteByte("aab"[r.Intn(3)])
			}
			lines = append(lines, sb.String()+[]string{"", "b", "ab", " aab"}[r.Intn(4)])
		}
		return lines
	}
	for i := 0; i < n; i++ {
		k := r.Intn(5)
		parts := []string{}
		for j := 0; j < k; j++ {
			parts = append(parts, patWords[r.Intn(len(patWords))])
		}
		sep := []string{" ", "/", ":", "  ", "-", ""}[r.Intn(6)]
		l := strings.Join(parts, sep)
		if r.Intn(6) == 0 {
			l = " " + l + " "
		}
		lines = append(lines, l)
	}
	return lines
}

func rawQuery(r *rand.Rand) string {
	toks := []string{"a", "b", "!", "'", "^", "$", "|", " ", "  ", "\\ ", "\\", "A", "é", "'a'", "!^", "$|", "\t", "x"}
	var sb strings.Builder
	n := r.Intn(9)
	for i := 0; i < n; i++ {
		sb.WriteString(toks[r.Intn(len(toks))])
	}
	return sb.String()
}

func patGen(r *rand.Rand, count int, emit func(op string, args ...string)) {
	schemes := []string{"default", "path", "history"}
	crits := []string{"0", "0,2", "0,5,2", "0,1", "0,3", "0,4", "0,1,2,3", "0,4,5"}
	for i := 0; i < count; i++ {
		fuzzy, v2, ext := r.Intn(3) > 0, r.Intn(3) > 0, r.Intn(5) > 0
		cm, norm := itoa(r.Intn(3)), r.Intn(3) > 0
		switch r.Intn(9) {
		case 8:
			// the same items searched under a sequence of field expressions
			lines := genLines(r)
			for len(lines) < 3 {
				lines = append(lines, genLines(r)...)
			}
			a := genAST(r, lines)[0][0]
			query := a.text
			if ext && r.Intn(2) == 0 {
				query = renderAST(genAST(r, lines), fuzzy)
			}
			exprs := []string{"1", "2", "-1", "2..", "..2", "1,3", "-2..-1", "2..3", "-"}
			nths := []string{}
			for k := 2 + r.Intn(3); k > 0; k-- {
				e := exprs[r.Intn(len(exprs))]
				if e != "-" {
					e = encStr(e)
				}
				nths = append(nths, e)
			}
			delim := "awk"
			if r.Intn(2) == 0 {
				delim = "d:" + encStr([]string{":", "/", " ", "-"}[r.Intn(4)])
			}
			ls := make([][]byte, len(lines))
			for k, l := range lines {
				ls[k] = []byte(l)
			}
			emit("qh", schemes[r.Intn(3)], crits[r.Intn(len(crits))], itoa(b2i(fuzzy)), itoa(b2i(v2)), itoa(b2i(ext)), cm,
				itoa(b2i(norm)), itoa(b2i(r.Intn(4) > 0)), encRunes([]rune(query)), strings.Join(nths, ";"), delim, encStrList(ls))
		case 0:
			emit("parse", itoa(b2i(fuzzy)), cm, itoa(b2i(norm)), encRunes([]rune(rawQuery(r))))
		case 1:
			q := rawQuery(r)
			if r.Intn(2) == 0 {
				q = renderAST(genAST(r, nil), fuzzy)
			}
			emit("build", itoa(b2i(fuzzy)), itoa(b2i(v2)), itoa(b2i(ext)), cm, itoa(b2i(norm)), encRunes([]rune(q)))
		default:
			lines := genLines(r)
			ast, query := "_", ""
			if ext {
				sets := genAST(r, lines)
				ast, query = encAST(sets), renderAST(sets, fuzzy)
				if r.Intn(8) == 0 {
					query = "  " + query + " "
				}
			} else {
				// non-extended: the whole query is one fuzzy / exact term
				a := genAST(r, lines)[0][0]
				kind := byte('f')
				if !fuzzy {
					kind = 'e'
				}
				ast, query = encAST([][]atom{{atom{kind, false, a.text}}}), a.text
			}
			if r.Intn(12) == 0 {
				ast, query = "_", rawQuery(r)
			}
			nth, delim := "-", "awk"
			if r.Intn(4) == 0 {
				nth = encStr([]string{"1", "2", "-1", "2..", "..2", "1,3", "-2..-1", "2..3"}[r.Intn(8)])
				if r.Intn(2) == 0 {
					delim = "d:" + encStr([]string{":", "/", " ", "-", "::"}[r.Intn(5)])
				}
			}
			ls := make([][]byte, len(lines))
			for k, l := range lines {
				ls[k] = []byte(l)
			}
			emit("q", schemes[r.Intn(3)], crits[r.Intn(len(crits))], itoa(b2i(fuzzy)), itoa(b2i(v2)), itoa(b2i(ext)), cm,
				itoa(b2i(norm)), itoa(b2i(r.Intn(4) > 0)), ast, encRunes([]rune(query)), nth, delim, encStrList(ls))
		}
	}
}

func init() { register("pat", &area{gen: patGen, eval: patEval}) }
