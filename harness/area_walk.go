package main

// Area "walk": the built-in directory walker (Reader.readFiles) on a generated tree.
//
//   walk run <file> <dir> <hidden> <follow> <skips> <root> <tree> [<cwd inside the tree|->]  => <sorted pushed paths>
//
//   <tree>  "|"-joined entries, each <kind>:<path bytes ','-joined…> encoded as kind byte followed by the path bytes:
//           100 ('d') directory, 102 ('f') file, 108 ('l') symlink: path, then 0, then the target (relative to the link's dir)
//   <skips> --walker-skip list, "|"-joined byte strings, "_" if none; <root> byte string ("." = the tree root)

import (
	"math/rand"
	"os"
	"path/filepath"
	"sort"
	"strings"

	fzf "github.com/junegunn/fzf/src"
)

func walkEval(op string, a []string) string {
	if op != "run" {
		panic("bad op")
	}
	dir, err := os.MkdirTemp("", "verif-walk")
	if err != nil {
		panic(err)
	}
	defer os.RemoveAll(dir)
	// build the tree (directories first)
	entries := decStrList(a[6])
	for pass := 0; pass < 3; pass++ {
		for _, e := range entries {
			kind, rest := e[0], string(e[1:])
			switch {
			case pass == 0 && kind == 'd':
				os.MkdirAll(filepath.Join(dir, rest), 0755)
			case pass == 1 && kind == 'f':
				os.MkdirAll(filepath.Join(dir, filepath.Dir(rest)), 0755)
				os.WriteFile(filepath.Join(dir, rest), nil, 0644)
			case pass == 2 && kind == 'l':
				parts := strings.SplitN(rest, "\x00", 2)
				os.MkdirAll(filepath.Join(dir, filepath.Dir(parts[0])), 0755)
				os.Symlink(parts[1], filepath.Join(dir, parts[0]))
			}
		}
	}
	cwd, _ := os.Getwd()
	wd := dir
	if len(a) > 7 && a[7] != "-" {
		wd = filepath.Join(dir, string(decBytes(a[7])))
	}
	if err := os.Chdir(wd); err != nil {
		panic(err)
	}
	defer os.Chdir(cwd)
	skips := []string{}
	for _, s := range decStrList(a[4]) {
		skips = append(skips, string(s))
	}
	file, dirOpt, hidden, follow := a[0] == "1", a[1] == "1", a[2] == "1", a[3] == "1"
	// when the skip list can be written as a --walker-skip value (no empty entry, no comma), take the
	// walker options the way a user gives them: through option parsing
	expressible := len(skips) > 0
	for _, sk := range skips {
		if sk == "" || strings.Contains(sk, ",") {
			expressible = false
		}
	}
	if expressible {
		w := []string{}
		for k, on := range []bool{file, dirOpt, hidden, follow} {
			if on {
				w = append(w, []string{"file", "dir", "hidden", "follow"}[k])
			}
		}
		args := []string{"--walker-skip=" + strings.Join(skips, ",")}
		if len(w) > 0 {
			args = append(args, "--walker="+strings.Join(w, ","))
			if f2, d2, h2, l2, sk2, err := fzf.VerifParsedWalker(args); err == nil {
				file, dirOpt, hidden, follow, skips = f2, d2, h2, l2, sk2
			}
		}
	}
	got := fzf.VerifReadFiles([]string{string(decBytes(a[5]))}, file, dirOpt, hidden, follow, skips)
	sort.Strings(got)
	out := [][]byte{}
	for _, g := range got {
		out = append(out, []byte(g))
	}
	return encStrList(out)
}

func walkGen(r *rand.Rand, count int, emit func(op string, args ...string)) {
	names := []string{"a", "b", "src", "lib", ".git", ".hid", "node_modules", "x y", "foo", "bar", "baz", "é", ".dotfile", "n\nl", "foo.go", "README", "trail ", " lead", "trail", "lead"}
	for i := 0; i < count; i++ {
		dirs := []string{}
		entries := [][]byte{}
		nd := r.Intn(7)
		for k := 0; k < nd; k++ {
			parent := ""
			if len(dirs) > 0 && r.Intn(3) > 0 {
				parent = dirs[r.Intn(len(dirs))]
			}
			d := filepath.Join(parent, names[r.Intn(len(names))])
			dup := false
			for _, x := range dirs {
				if x == d {
					dup = true
				}
			}
			if !dup && strings.Count(d, "/") < 4 {
				dirs = append(dirs, d)
				entries = append(entries, append([]byte{'d'}, []byte(d)...))
			}
		}
		files := map[string]bool{}
		nf := r.Intn(8)
		for k := 0; k < nf; k++ {
			parent := ""
			if len(dirs) > 0 && r.Intn(4) > 0 {
				parent = dirs[r.Intn(len(dirs))]
			}
			f := filepath.Join(parent, names[r.Intn(len(names))])
			isDir := false
			for _, x := range dirs {
				if x == f {
					isDir = true
				}
			}
			if !isDir && !files[f] {
				files[f] = true
				entries = append(entries, append([]byte{'f'}, []byte(f)...))
			}
		}
		// symlinks to a file or to a directory of the tree (never into an ancestor: no cycles)
		if r.Intn(3) == 0 && len(dirs) > 0 {
			target := dirs[r.Intn(len(dirs))]
			link := "ln" + itoa(r.Intn(3))
			isAncestorFree := !strings.Contains(target, "ln")
			if isAncestorFree && !files[link] {
				files[link] = true
				entries = append(entries, append(append([]byte{'l'}, []byte(link)...), append([]byte{0}, []byte(target)...)...))
			}
		}
		if r.Intn(4) == 0 && len(files) > 0 {
			var target string
			for f := range files {
				if !strings.HasPrefix(f, "ln") {
					target = f
					break
				}
			}
			if target != "" && !files["lf"] {
				files["lf"] = true
				entries = append(entries, append(append([]byte{'l'}, []byte("lf")...), append([]byte{0}, []byte(target)...)...))
			}
		}
		skips := [][]byte{}
		if r.Intn(6) == 0 { // a path skip next to a directory whose name merely ends with its first component
			x, y := names[r.Intn(len(names))], names[r.Intn(len(names))]
			have := map[string]bool{}
			for _, d := range dirs {
				have[d] = true
			}
			if files[x] || files["baz"+x] || files["sub"] || files[x+"/"+y] {
				x, y = "tx", "ty" // names that cannot clash with an existing file
			}
			for _, d := range []string{x, x + "/" + y, "baz" + x, "baz" + x + "/" + y, "sub", "sub/" + x, "sub/" + x + "/" + y} {
				if have[d] {
					continue
				}
				have[d] = true
				dirs = append(dirs, d)
				entries = append(entries, append([]byte{'d'}, []byte(d)...))
				if strings.HasSuffix(d, "/"+y) {
					entries = append(entries, append([]byte{'f'}, []byte(d+"/inside")...))
				}
			}
			skips = append(skips, []byte([]string{x + "/" + y, "/" + x + "/" + y, y}[r.Intn(3)]))
		}
		switch r.Intn(5) {
		case 0:
			skips = append(skips, []byte(".git"), []byte("node_modules"))
		case 1:
			if len(dirs) > 0 {
				skips = append(skips, []byte(dirs[r.Intn(len(dirs))]))
			}
		case 2:
			skips = append(skips, []byte([]string{"src/lib", "a/b", "foo/bar", "/a", "/src/foo", "oo/bar", "b"}[r.Intn(7)]))
		}
		root := "."
		if r.Intn(6) == 0 && len(dirs) > 0 {
			root = strings.SplitN(dirs[0], "/", 2)[0]
			// the same directory under other spellings: the candidates carry the root as it was given
			// (without trailing separators and one leading "./"), whatever it takes to get there
			if !strings.HasPrefix(root, ".") && r.Intn(2) == 0 {
				nested := ""
				for _, d := range dirs {
					if strings.HasPrefix(d, root+"/") && !strings.Contains(d[len(root)+1:], "/") && !strings.HasPrefix(d[len(root)+1:], ".") {
						nested = d[len(root)+1:]
					}
				}
				forms := []string{"./" + root, root + "/", root + "//", root + "/../" + root, root + "/./../" + root, ".//" + root, "././" + root, ".///" + root + "/"}
				if nested != "" {
					forms = append(forms, root+"/./"+nested, root+"/"+nested+"/..", root+"//"+nested, root+"/"+nested+"/../"+nested)
				}
				root = forms[r.Intn(len(forms))]
			}
		}
		file, dir := r.Intn(4) > 0, r.Intn(3) == 0
		if !file && !dir {
			file = true
		}
		cwd := "-"
		if r.Intn(5) == 0 && len(dirs) > 0 { // run from inside the tree: roots "." and ".."
			// (not from inside the target of a directory link: fastwalk then refuses to follow that
			// link, which is the library's loop protection, not fzf's)
			cands := []string{}
			for _, d := range dirs {
				ok := true
				for _, e := range entries {
					if e[0] == 'l' {
						t := strings.SplitN(string(e[1:]), "\x00", 2)[1]
						if d == t || strings.HasPrefix(d, t+"/") {
							ok = false
						}
					}
				}
				if ok {
					cands = append(cands, d)
				}
			}
			if len(cands) > 0 {
				cwd = encStr(cands[r.Intn(len(cands))])
				root = []string{"..", ".", ".."}[r.Intn(3)]
			}
		}
		emit("run", itoa(b2i(file)), itoa(b2i(dir)), itoa(b2i(r.Intn(2) == 0)), itoa(b2i(r.Intn(2) == 0)), encStrList(skips), encStr(root), encStrList(entries), cwd)
	}
}

func init() { register("walk", &area{gen: walkGen, eval: walkEval}) }
