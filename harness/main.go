package main

// verifharness: runs the real fzf code (built from /repo with -tags verif) on
// generated or given cases and prints one protocol line per case.
//
//   harness gen  <area> <seed> <count>   generate cases for an area, with answers
//   harness eval                         read "<area> <op> <args>" lines, append answers
//   harness areas                        list areas

import (
	"encoding/json"
	"bufio"
	"fmt"
	"math/rand"
	"os"
	"sort"
	"strings"
)

type area struct {
	// gen emits `count` case lines (without the area prefix and without answer)
	gen func(r *rand.Rand, count int, emit func(op string, args ...string))
	// eval runs the implementation on one case and returns the canonical answer
	eval func(op string, args []string) string
}

var areas = map[string]*area{}

// genSeed is the seed of the running `gen` call: the check runs one generator per shard with seeds
// <run seed>*1000 + <shard>; systematic (non-random) sweeps are emitted by shard 0 only.
var genSeed int64

func register(name string, a *area) { areas[name] = a }

func safeEval(a *area, op string, args []string) (ans string) {
	defer func() {
		if r := recover(); r != nil {
			msg := strings.Map(func(c rune) rune {
				if c == ' ' || c == '\n' || c == '\t' {
					return '_'
				}
				return c
			}, fmt.Sprint(r))
			if len(msg) > 120 {
				msg = msg[:120]
			}
			ans = "crash:" + msg
		}
	}()
	return a.eval(op, args)
}

func main() {
	if len(os.Args) < 2 {
		fmt.Fprintln(os.Stderr, "usage: harness gen|eval|areas ...")
		os.Exit(2)
	}
	out := bufio.NewWriterSize(os.Stdout, 1<<20)
	defer out.Flush()
	defer func() {
		// scratch directory of the quote area
		if quoteDir != "" {
			os.RemoveAll(quoteDir)
		}
	}()
	switch os.Args[1] {
	case "unicode":
		out.Flush()
		dumpUnicode()
	case "covers":
		// the option-coverage relation derived from the tree under test (pinned as option_covers.json)
		b, _ := json.MarshalIndent(derivedCovers(), "", " ")
		out.Write(b)
		fmt.Fprintln(out)
	case "areas":
		names := []string{}
		for n := range areas {
			names = append(names, n)
		}
		sort.Strings(names)
		for _, n := range names {
			fmt.Fprintln(out, n)
		}
	case "gen":
		name := os.Args[2]
		a := areas[name]
		if a == nil {
			fmt.Fprintln(os.Stderr, "unknown area", name)
			os.Exit(2)
		}
		seed := int64(atoi(os.Args[3]))
		count := atoi(os.Args[4])
		genSeed = seed
		r := rand.New(rand.NewSource(seed))
		a.gen(r, count, func(op string, args ...string) {
			ans := safeEval(a, op, args)
			fmt.Fprintf(out, "%s %s %s => %s\n", name, op, strings.Join(args, " "), ans)
		})
	case "eval":
		sc := bufio.NewScanner(os.Stdin)
		sc.Buffer(make([]byte, 1<<20), 1<<28)
		for sc.Scan() {
			line := sc.Text()
			if i := strings.Index(line, " => "); i >= 0 {
				line = line[:i]
			}
			f := strings.Fields(line)
			if len(f) < 2 {
				continue
			}
			a := areas[f[0]]
			if a == nil {
				fmt.Fprintf(out, "%s => crash:unknown-area\n", line)
				continue
			}
			ans := safeEval(a, f[1], f[2:])
			fmt.Fprintf(out, "%s => %s\n", line, ans)
			out.Flush()
		}
	default:
		fmt.Fprintln(os.Stderr, "unknown command", os.Args[1])
		os.Exit(2)
	}
}
