package main

// Area "matcher": the real Matcher (loop, scan, caches) driven in-process.
//
//   matcher pending <lines> <reqs>   => <query served last> <items it saw> <matched indices>
//       reqs: ";"-joined  <query bytes>~<cancel 0|1>~<upto>   posted before the loop runs, in this order
//   matcher conc <lines> <queries> <sort> <tac> <yield>  => ";"-joined <query>~<snapshot count>~<indices>~<frozen>
//   matcher scan <lines> <query> <sort> <tac> <partitions> <cancel 0|1|2>  => <cancelled> <hasMerger> <indices>

import (
	"fmt"
	"math/rand"
	"strings"

	fzf "github.com/junegunn/fzf/src"
)

func matcherEval(op string, a []string) string {
	lines := []string{}
	for _, l := range decStrList(a[0]) {
		lines = append(lines, string(l))
	}
	setScheme("default")
	switch op {
	case "pending":
		reqs := []struct {
			Query  string
			Cancel bool
			Upto   int
		}{}
		for _, r := range strings.Split(a[1], ";") {
			f := strings.Split(r, "~")
			reqs = append(reqs, struct {
				Query  string
				Cancel bool
				Upto   int
			}{string(decBytes(f[0])), f[1] == "1", atoi(f[2])})
		}
		q, n, idx := fzf.VerifMatcherPending(lines, reqs)
		xs := make([]int, len(idx))
		for i, v := range idx {
			xs[i] = int(v)
		}
		return fmt.Sprintf("%s %d %s", encStr(q), n, encInts(xs))
	case "scan":
		cancelled, has, idx := fzf.VerifScan(lines, string(decBytes(a[1])), a[2] == "1", a[3] == "1", atoi(a[4]), atoi(a[5]))
		xs := make([]int, len(idx))
		for i, v := range idx {
			xs[i] = int(v)
		}
		return fmt.Sprintf("%d %d %s", b2i(cancelled), b2i(has), encInts(xs))
	case "conc":
		qs := []string{}
		for _, q := range decStrList(a[1]) {
			qs = append(qs, string(q))
		}
		recs := fzf.VerifConcurrent(lines, qs, a[2] == "1", a[3] == "1", atoi(a[4]))
		parts := []string{}
		for _, r := range recs {
			xs := make([]int, len(r.Idx))
			for i, v := range r.Idx {
				xs[i] = int(v)
			}
			parts = append(parts, fmt.Sprintf("%s~%d~%s~%d", encStr(r.Query), r.Count, encInts(xs), b2i(r.Frozen)))
		}
		if len(parts) == 0 {
			return "_"
		}
		return strings.Join(parts, ";")
	}
	panic("bad op")
}

func matcherGen(r *rand.Rand, count int, emit func(op string, args ...string)) {
	for i := 0; i < count; i++ {
		n := []int{3, 20, 99, 100, 101, 250, 450}[r.Intn(7)]
		lines := [][]byte{}
		for k := 0; k < n; k++ {
			lines = append(lines, []byte(patWords[r.Intn(len(patWords))]+[]string{"", " ", "/"}[r.Intn(3)]+patWords[r.Intn(len(patWords))]))
		}
		qs := []string{"a", "b", "fo", "ba", "o", "", "x", "foo", "!a", "a | b"}
		if r.Intn(4) == 0 {
			// searches through the real loop while a loader goroutine is still pushing
			big := [][]byte{}
			total := []int{150, 450, 1200, 3000}[r.Intn(4)]
			for k := 0; k < total; k++ {
				big = append(big, []byte(patWords[r.Intn(len(patWords))]+[]string{"", " ", "/"}[r.Intn(3)]+patWords[r.Intn(len(patWords))]))
			}
			nq := 1 + r.Intn(3)
			cq := [][]byte{}
			for k := 0; k < nq; k++ {
				cq = append(cq, []byte(qs[r.Intn(len(qs))]))
			}
			if r.Intn(2) == 0 { // a query and its extension: cache narrowing
				cq = append(cq, []byte("f"), []byte("fo"), []byte("foo"))
			}
			emit("conc", encStrList(big), encStrList(cq), itoa(r.Intn(2)), itoa(r.Intn(2)), itoa([]int{0, 1, 7, 50}[r.Intn(4)]))
			continue
		}
		if r.Intn(2) == 0 {
			// two or three requests pending at once: an older one and the newest
			k := 2 + r.Intn(2)
			reqs := []string{}
			upto := 1 + r.Intn(n)
			for j := 0; j < k; j++ {
				if r.Intn(2) == 0 && upto < n {
					upto += 1 + r.Intn(n-upto)
				}
				reqs = append(reqs, fmt.Sprintf("%s~%d~%d", encStr(qs[r.Intn(len(qs))]), r.Intn(2), upto))
			}
			emit("pending", encStrList(lines), strings.Join(reqs, ";"))
		} else {
			emit("scan", encStrList(lines), encStr(qs[r.Intn(len(qs))]), itoa(r.Intn(2)), itoa(r.Intn(2)), itoa([]int{0, 1, 2, 3, 7, 32}[r.Intn(6)]), itoa(r.Intn(3)))
		}
	}
}

func init() { register("matcher", &area{gen: matcherGen, eval: matcherEval}) }
