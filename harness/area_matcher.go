package main

// Area "matcher": the real Matcher (loop, scan, caches) driven in-process.
//
//   matcher pending <lines> <reqs>   => <query served last> <items it saw> <matched indices>
//       reqs: ";"-joined  <query bytes>~<cancel 0|1>~<upto>   posted before the loop runs, in this order
//   matcher hist <lines A> <lines B> <reqs> <tac>  => ";"-joined published indices per request
//       reqs: ";"-joined <query>~<set 0|1>~<upto>~<final>~<sort>; a switch of set is a reload (major revision)
//   matcher histo <lines A> <lines B> <reqs> <tac> <fuzzy> <tail>  => ";"-joined <indices>~<first item>.<items>.<contiguous>~<changed>~<minor>
//       the same through VerifMatcherHistoryOpts: exact mode, --tail (Snapshot trims; a trim bumps the minor revision)
//   matcher conc <lines> <queries> <sort> <tac> <yield>  => ";"-joined <query>~<snapshot count>~<indices>~<frozen>
//   matcher scan <lines> <query> <sort> <tac> <partitions> <cancel 0|1|2>  => <cancelled> <hasMerger> <indices>

import (
	"fmt"
	"math/rand"
	"strings"

	fzf "github.com/junegunn/fzf/src"
)

func matcherEval(op string, a []string) string {
	lines := []string{}
	for _, l := range decStrList(a[0]) {
		lines = append(lines, string(l))
	}
	setScheme("default")
	switch op {
	case "pending":
		reqs := []struct {
			Query  string
			Cancel bool
			Upto   int
		}{}
		for _, r := range strings.Split(a[1], ";") {
			f := strings.Split(r, "~")
			reqs = append(reqs, struct {
				Query  string
				Cancel bool
				Upto   int
			}{string(decBytes(f[0])), f[1] == "1", atoi(f[2])})
		}
		q, n, idx := fzf.VerifMatcherPending(lines, reqs)
		xs := make([]int, len(idx))
		for i, v := range idx {
			xs[i] = int(v)
		}
		return fmt.Sprintf("%s %d %s", encStr(q), n, encInts(xs))
	case "scan":
		cancelled, has, idx := fzf.VerifScan(lines, string(decBytes(a[1])), a[2] == "1", a[3] == "1", atoi(a[4]), atoi(a[5]))
		xs := make([]int, len(idx))
		for i, v := range idx {
			xs[i] = int(v)
		}
		return fmt.Sprintf("%d %d %s", b2i(cancelled), b2i(has), encInts(xs))
	case "hist":
		// a[0] = first input (lines), a[1] = second input, a[2] = reqs, a[3] = tac
		second := []string{}
		for _, l := range decStrList(a[1]) {
			second = append(second, string(l))
		}
		reqs := []fzf.VerifHistReq{}
		for _, r := range strings.Split(a[2], ";") {
			f := strings.Split(r, "~")
			reqs = append(reqs, fzf.VerifHistReq{Query: string(decBytes(f[0])), Set: atoi(f[1]), Upto: atoi(f[2]), Final: f[3] == "1", Sort: f[4] == "1"})
		}
		res := fzf.VerifMatcherHistory([][]string{lines, second}, reqs, a[3] == "1")
		parts := []string{}
		for _, idx := range res {
			xs := make([]int, len(idx))
			for i, v := range idx {
				xs[i] = int(v)
			}
			parts = append(parts, encInts(xs))
		}
		return strings.Join(parts, ";")
	case "histo":
		second := []string{}
		for _, l := range decStrList(a[1]) {
			second = append(second, string(l))
		}
		reqs := []fzf.VerifHistReq{}
		for _, r := range strings.Split(a[2], ";") {
			f := strings.Split(r, "~")
			reqs = append(reqs, fzf.VerifHistReq{Query: string(decBytes(f[0])), Set: atoi(f[1]), Upto: atoi(f[2]), Final: f[3] == "1", Sort: f[4] == "1"})
		}
		res := fzf.VerifMatcherHistoryOpts([][]string{lines, second}, reqs, a[3] == "1", a[4] == "1", atoi(a[5]))
		parts := []string{}
		for _, ans := range res {
			xs := make([]int, len(ans.Idx))
			for i, v := range ans.Idx {
				xs[i] = int(v)
			}
			first, contig := 0, true
			if len(ans.Items) > 0 {
				first = int(ans.Items[0])
			}
			for i, v := range ans.Items {
				contig = contig && int(v) == first+i
			}
			parts = append(parts, fmt.Sprintf("%s~%d.%d.%d~%d~%d", encInts(xs), first, len(ans.Items), b2i(contig), b2i(ans.Changed), ans.Minor))
		}
		return strings.Join(parts, ";")
	case "conc":
		qs := []string{}
		for _, q := range decStrList(a[1]) {
			qs = append(qs, string(q))
		}
		recs := fzf.VerifConcurrent(lines, qs, a[2] == "1", a[3] == "1", atoi(a[4]))
		parts := []string{}
		for _, r := range recs {
			xs := make([]int, len(r.Idx))
			for i, v := range r.Idx {
				xs[i] = int(v)
			}
			parts = append(parts, fmt.Sprintf("%s~%d~%s~%d", encStr(r.Query), r.Count, encInts(xs), b2i(r.Frozen)))
		}
		if len(parts) == 0 {
			return "_"
		}
		return strings.Join(parts, ";")
	}
	panic("bad op")
}

func matcherGen(r *rand.Rand, count int, emit func(op string, args ...string)) {
	for i := 0; i < count; i++ {
		n := []int{3, 20, 99, 100, 101, 250, 450}[r.Intn(7)]
		lines := [][]byte{}
		for k := 0; k < n; k++ {
			lines = append(lines, []byte(patWords[r.Intn(len(patWords))]+[]string{"", " ", "/"}[r.Intn(3)]+patWords[r.Intn(len(patWords))]))
		}
		qs := []string{"a", "b", "fo", "ba", "o", "", "x", "foo", "!a", "a | b"}
		if r.Intn(3) == 0 {
			if r.Intn(2) == 0 {
				emitHistOpts(r, emit)
			} else {
				emitHist(r, emit)
			}
			continue
		}
		if r.Intn(4) == 0 {
			// searches through the real loop while a loader goroutine is still pushing
			big := [][]byte{}
			total := []int{150, 450, 1200, 3000}[r.Intn(4)]
			for k := 0; k < total; k++ {
				big = append(big, []byte(patWords[r.Intn(len(patWords))]+[]string{"", " ", "/"}[r.Intn(3)]+patWords[r.Intn(len(patWords))]))
			}
			nq := 1 + r.Intn(3)
			cq := [][]byte{}
			for k := 0; k < nq; k++ {
				cq = append(cq, []byte(qs[r.Intn(len(qs))]))
			}
			if r.Intn(2) == 0 { // a query and its extension: cache narrowing
				cq = append(cq, []byte("f"), []byte("fo"), []byte("foo"))
			}
			emit("conc", encStrList(big), encStrList(cq), itoa(r.Intn(2)), itoa(r.Intn(2)), itoa([]int{0, 1, 7, 50}[r.Intn(4)]))
			continue
		}
		if r.Intn(2) == 0 {
			// two or three requests pending at once: an older one and the newest
			k := 2 + r.Intn(2)
			reqs := []string{}
			upto := 1 + r.Intn(n)
			for j := 0; j < k; j++ {
				if r.Intn(2) == 0 && upto < n {
					upto += 1 + r.Intn(n-upto)
				}
				reqs = append(reqs, fmt.Sprintf("%s~%d~%d", encStr(qs[r.Intn(len(qs))]), r.Intn(2), upto))
			}
			emit("pending", encStrList(lines), strings.Join(reqs, ";"))
		} else {
			emit("scan", encStrList(lines), encStr(qs[r.Intn(len(qs))]), itoa(r.Intn(2)), itoa(r.Intn(2)), itoa([]int{0, 1, 2, 3, 7, 32}[r.Intn(6)]), itoa(r.Intn(3)))
		}
	}
}

// histLines: mostly filler, with a few lines that carry the tokens the queries look for, so that
// per-chunk results stay under queryCacheMax and the chunk cache is really used.
func histLines(r *rand.Rand, n int) [][]byte {
	rare := []string{"foo", "Foo", "fob", "f\to", "ofo", "foobar", "barfoo", "a b", "a\tb", "ba", "café", "cafe", "oof", "FOO bar", "b a"}
	out := [][]byte{}
	for k := 0; k < n; k++ {
		if r.Intn(12) == 0 {
			out = append(out, []byte(rare[r.Intn(len(rare))]+[]string{"", " x", "/y", " 12"}[r.Intn(4)]))
		} else {
			out = append(out, []byte(fmt.Sprintf("%s%d", []string{"x", "yz", "q-", "z z"}[r.Intn(4)], r.Intn(1000))))
		}
	}
	return out
}

func emitHist(r *rand.Rand, emit func(op string, args ...string)) {
	n0 := []int{100, 200, 230, 300, 500}[r.Intn(5)]
	n1 := n0
	if r.Intn(2) == 0 {
		n1 = []int{100, 150, 300}[r.Intn(3)]
	}
	first, second := histLines(r, n0), histLines(r, n1)
	chains := [][]string{
		{"f", "fo", "foo", "fo", "foo"},
		{"o", "oo", "foo", "foob"},
		{"fo", "Fo", "Foo", "foo"},
		{"a", "a b", "a\tb", "a b"},
		{"a\tb", "a b"},
		{"foo", "foo !bar", "foo bar", "foo | bar", "foo"},
		{"caf", "cafe", "café", "cafe"},
		{"'fo", "'foo", "foo"},
		{"^fo", "fo", "foo$", "foo"},
		{"ba", "b", "ba", "", "ba"},
	}
	reqs := []string{}
	set, upto := 0, 0
	sorted := true
	total := n0
	nreq := 4 + r.Intn(10)
	chain := chains[r.Intn(len(chains))]
	ci := 0
	for k := 0; k < nreq; k++ {
		switch r.Intn(8) {
		case 0:
			sorted = !sorted
		case 1:
			if set == 0 { // reload
				set, upto, total = 1, 0, n1
			}
		case 2:
			chain = chains[r.Intn(len(chains))]
			ci = 0
		}
		// loading progresses (often to a chunk boundary or to the size of the old input)
		if upto < total {
			switch r.Intn(4) {
			case 0:
				upto = total
			case 1:
				upto += 100 - upto%100
			case 2:
				upto += 1 + r.Intn(total-upto)
			}
			if upto > total {
				upto = total
			}
		}
		if upto == 0 {
			upto = 1 + r.Intn(total)
		}
		final := upto == total && r.Intn(3) > 0
		if k == nreq-1 {
			upto, final = total, true
		}
		reqs = append(reqs, fmt.Sprintf("%s~%d~%d~%d~%d", encStr(chain[ci%len(chain)]), set, upto, b2i(final), b2i(sorted)))
		if final { // once reading has finished, every later request of this input is final too
			total = upto
		}
		ci++
	}
	// finality is monotone within one input
	emit("hist", encStrList(first), encStrList(second), strings.Join(fixFinal(reqs), ";"), itoa(r.Intn(2)))
}

// emitHistOpts: histories in exact mode (anchored terms next to plain ones), with --tail (small
// steps, the same query again and again), and reloads whose input grows to the size of the old one.
func emitHistOpts(r *rand.Rand, emit func(op string, args ...string)) {
	mode := r.Intn(3)
	n0 := []int{100, 200, 230, 300, 500}[r.Intn(5)]
	sparse := func(n int) [][]byte {
		rare := []string{"foo bar", "bar foo", "foobar", "bar car", "car bar", "foo", "bar", "barfoo car", "foo barcar", "Bar foo", "xbar"}
		out := [][]byte{}
		for k := 0; k < n; k++ {
			if r.Intn(10) == 0 {
				out = append(out, []byte(rare[r.Intn(len(rare))]))
			} else {
				out = append(out, []byte(fmt.Sprintf("%s%d", []string{"x", "yz", "q-", "z z"}[r.Intn(4)], r.Intn(1000))))
			}
		}
		return out
	}
	first, second := sparse(n0), sparse(n0+r.Intn(150))
	reqs := []string{}
	fuzzy, tail := 1, 0
	switch mode {
	case 0: // exact mode: which terms may narrow the search space
		fuzzy = r.Intn(4) / 3
		chains := [][]string{
			{"bar ^foo", "bar", "bar car$", "bar"},
			{"bar", "bar car$", "bar ^foo", "bar"},
			{"foo 'bar", "foo", "foo ^bar", "foo bar$", "foo"},
			{"bar", "bar ^bar$", "bar", "bar 'car'"},
			{"foo !bar", "foo", "foo bar | car", "foo"},
			{"^foo", "foo", "foo$", "fo"},
		}
		chain := chains[r.Intn(len(chains))]
		upto := n0
		if r.Intn(3) == 0 {
			upto = 100 * (1 + r.Intn(n0/100))
		}
		for k, q := range chain {
			final := upto == n0
			if k == len(chain)-1 {
				upto, final = n0, true
			}
			reqs = append(reqs, fmt.Sprintf("%s~0~%d~%d~1", encStr(q), upto, b2i(final)))
		}
	case 1: // --tail: the list keeps its size while its contents move on
		tail = []int{3, 5, 50, 100, 101, 150, 250}[r.Intn(7)]
		qs := []string{"b", "foo", "bar", "x", ""}
		q := qs[r.Intn(len(qs))]
		upto := r.Intn(tail + 2)
		nreq := 4 + r.Intn(10)
		for k := 0; k < nreq; k++ {
			switch r.Intn(5) {
			case 0:
				upto += 100
			case 1:
			default:
				upto += 1 + r.Intn(7)
			}
			if upto > n0 {
				upto = n0
			}
			if r.Intn(6) == 0 {
				q = qs[r.Intn(len(qs))]
			}
			final := k == nreq-1
			if final {
				upto = n0
			}
			reqs = append(reqs, fmt.Sprintf("%s~0~%d~%d~1", encStr(q), upto, b2i(final)))
		}
	default: // a reload whose input reaches the size of the input it replaced
		q := []string{"bar", "foo", "x", "b"}[r.Intn(4)]
		sorted := r.Intn(4) > 0
		reqs = append(reqs, fmt.Sprintf("%s~0~%d~1~%d", encStr(q), n0, b2i(sorted)))
		small := 1 + r.Intn(n0-1)
		if r.Intn(2) == 0 { // a sort toggle instead of a reload empties the cache too
			sorted = !sorted
			reqs = append(reqs, fmt.Sprintf("%s~0~%d~1~%d", encStr(q), n0, b2i(sorted)))
		}
		reqs = append(reqs, fmt.Sprintf("%s~1~%d~0~%d", encStr(q), small, b2i(sorted)))
		reqs = append(reqs, fmt.Sprintf("%s~1~%d~0~%d", encStr(q), n0, b2i(sorted)))
		reqs = append(reqs, fmt.Sprintf("%s~1~%d~1~%d", encStr(q), len(second), b2i(sorted)))
	}
	emit("histo", encStrList(first), encStrList(second), strings.Join(fixFinal(reqs), ";"), itoa(r.Intn(2)), itoa(fuzzy), itoa(tail))
}

func fixFinal(reqs []string) []string {
	seenFinal := map[string]bool{}
	out := []string{}
	for _, q := range reqs {
		f := strings.Split(q, "~")
		if seenFinal[f[1]] {
			f[3] = "1"
		}
		if f[3] == "1" {
			seenFinal[f[1]] = true
		}
		out = append(out, strings.Join(f, "~"))
	}
	return out
}

func init() { register("matcher", &area{gen: matcherGen, eval: matcherEval}) }
