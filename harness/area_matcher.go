package main

// Area "matcher": the real Matcher (loop, scan, caches) driven in-process.
//
//   matcher pending <lines> <reqs>   => <query served last> <items it saw> <matched indices>
//       reqs: ";"-joined  <query bytes>~<cancel 0|1>~<upto>   posted before the loop runs, in this order
//   matcher scan <lines> <query> <sort> <tac> <partitions> <cancel 0|1|2>  => <cancelled> <hasMerger> <indices>

import (
	"fmt"
	"math/rand"
	"strings"

	fzf "github.com/junegunn/fzf/src"
)

func matcherEval(op string, a []string) string {
	lines := []string{}
	for _, l := range decStrList(a[0]) {
		lines = append(lines, string(l))
	}
	setScheme("default")
	switch op {
	case "pending":
		reqs := []struct {
			Query  string
			Cancel bool
			Upto   int
		}{}
		for _, r := range strings.Split(a[1], ";") {
			f := strings.Split(r, "~")
			reqs = append(reqs, struct {
				Query  string
				Cancel bool
				Upto   int
			}{string(decBytes(f[0])), f[1] == "1", atoi(f[2])})
		}
		q, n, idx := fzf.VerifMatcherPending(lines, reqs)
		xs := make([]int, len(idx))
		for i, v := range idx {
			xs[i] = int(v)
		}
		return fmt.Sprintf("%s %d %s", encStr(q), n, encInts(xs))
	case "scan":
		cancelled, has, idx := fzf.VerifScan(lines, string(decBytes(a[1])), a[2] == "1", a[3] == "1", atoi(a[4]), atoi(a[5]))
		xs := make([]int, len(idx))
		for i, v := range idx {
			xs[i] = int(v)
		}
		return fmt.Sprintf("%d %d %s", b2i(cancelled), b2i(has), encInts(xs))
	}
	panic("bad op")
}

func matcherGen(r *rand.Rand, count int, emit func(op string, args ...string)) {
	for i := 0; i < count; i++ {
		n := []int{3, 20, 99, 100, 101, 250, 450}[r.Intn(7)]
		lines := [][]byte{}
		for k := 0; k < n; k++ {
			lines = append(lines, []byte(patWords[r.Intn(len(patWords))]+[]string{"", " ", "/"}[r.Intn(3)]+patWords[r.Intn(len(patWords))]))
		}
		qs := []string{"a", "b", "fo", "ba", "o", "", "x", "foo", "!a", "a | b"}
		if r.Intn(2) == 0 {
			// two or three requests pending at once: an older one and the newest
			k := 2 + r.Intn(2)
			reqs := []string{}
			upto := 1 + r.Intn(n)
			for j := 0; j < k; j++ {
				if r.Intn(2) == 0 && upto < n {
					upto += 1 + r.Intn(n-upto)
				}
				reqs = append(reqs, fmt.Sprintf("%s~%d~%d", encStr(qs[r.Intn(len(qs))]), r.Intn(2), upto))
			}
			emit("pending", encStrList(lines), strings.Join(reqs, ";"))
		} else {
			emit("scan", encStrList(lines), encStr(qs[r.Intn(len(qs))]), itoa(r.Intn(2)), itoa(r.Intn(2)), itoa([]int{0, 1, 2, 3, 7, 32}[r.Intn(6)]), itoa(r.Intn(3)))
		}
	}
}

func init() { register("matcher", &area{gen: matcherGen, eval: matcherEval}) }
