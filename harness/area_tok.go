package main

// Area "tok": src/tokenizer.go (+ delimiterRegexp / splitNth of options.go).
//
//   tok range <str>                     => ok <begin> <end> | reject
//   tok tokenize <delim> <text>         => <kind> <sep|-> <locs> <tokens>
//   tok transform <delim> <text> <nth>  => <kind> <sep|-> <locs> <tokens> <transformed> <joined> <locs2> <stripped>
//
//   <delim>  awk | d:<bytes of the --delimiter argument>
//   <tokens> "|"-joined <bytes>@<prefixLength>, "_" when empty
//   <locs>   regexp match locations b-e joined by "/", "_" if none / not a regex delimiter

import (
	"fmt"
	"math/rand"
	"strings"

	fzf "github.com/junegunn/fzf/src"
)

func parseDelim(s string) fzf.Delimiter {
	if s == "awk" {
		return fzf.Delimiter{}
	}
	return fzf.VerifDelimiter(string(decBytes(s[2:])))
}

func encLocs(locs [][]int) string {
	if len(locs) == 0 {
		return "_"
	}
	parts := []string{}
	for _, l := range locs {
		parts = append(parts, fmt.Sprintf("%d-%d", l[0], l[1]))
	}
	return strings.Join(parts, "/")
}

func encTokens(ts []fzf.Token) string {
	if len(ts) == 0 {
		return "_"
	}
	parts := []string{}
	for _, t := range ts {
		s, pl := t.VerifFields()
		parts = append(parts, encBytes([]byte(s))+"@"+itoa(pl))
	}
	return strings.Join(parts, "|")
}

func tokEval(op string, args []string) string {
	switch op {
	case "range":
		s := string(decBytes(args[0]))
		r, ok := fzf.ParseRange(&s)
		if !ok {
			return "reject"
		}
		b, e := r.VerifFields()
		return fmt.Sprintf("ok %d %d", b, e)
	case "tokenize", "transform":
		d := parseDelim(args[0])
		text := string(decBytes(args[1]))
		kind, sep := d.VerifKind()
		sepEnc := "-"
		if kind == "str" {
			sepEnc = encBytes([]byte(sep))
		}
		toks := fzf.Tokenize(text, d)
		head := fmt.Sprintf("%s %s %s %s", kind, sepEnc, encLocs(d.VerifLocs(text)), encTokens(toks))
		if op == "tokenize" {
			return head
		}
		ranges, err := fzf.VerifSplitNth(string(decBytes(args[2])))
		if err != nil {
			return head + " reject"
		}
		tr := fzf.Transform(toks, ranges)
		joined := fzf.JoinTokens(tr)
		stripped := fzf.StripLastDelimiter(joined, d)
		return fmt.Sprintf("%s %s %s %s %s", head, encTokens(tr), encBytes([]byte(joined)), encLocs(d.VerifLocs(joined)), encBytes([]byte(stripped)))
	}
	panic("bad op")
}

var tokDelims = []string{"awk", "awk", "awk", ":", ",", " ", "\\t", "::", "ab", "[0-9]+", " +", ":|,", "\\s+", "a*", "x?:", "é", "[é:]", "->", "."}

func tokLine(r *rand.Rand) []byte {
	pieces := []string{"a", "b", "ab", "foo", " ", "  ", "\t", ":", "::", ",", "1", "23", "é", "日本", "x", "->", ".", "aa", ""}
	var sb strings.Builder
	n := r.Intn(9)
	for i := 0; i < n; i++ {
		sb.WriteString(pieces[r.Intn(len(pieces))])
	}
	return []byte(sb.String())
}

func tokBound(r *rand.Rand) string {
	switch r.Intn(12) {
	case 0:
		return ""
	case 1:
		return itoa(1000000 * (r.Intn(3) - 1))
	case 2:
		return "0"
	default:
		return itoa(r.Intn(13) - 6)
	}
}

func tokRange(r *rand.Rand) string {
	switch r.Intn(6) {
	case 0:
		return tokBound(r)
	case 1:
		return ".."
	case 2:
		return tokBound(r) + ".."
	case 3:
		return ".." + tokBound(r)
	case 4:
		return tokBound(r) + ".." + tokBound(r)
	default:
		return []string{"1..2..3", "a", "1.", ".1", "--1", "+2", "1..-", "…"}[r.Intn(8)]
	}
}

func tokGen(r *rand.Rand, count int, emit func(op string, args ...string)) {
	for i := 0; i < count; i++ {
		switch r.Intn(5) {
		case 0:
			emit("range", encBytes([]byte(tokRange(r))))
		case 1:
			d := tokDelims[r.Intn(len(tokDelims))]
			if d != "awk" {
				d = "d:" + encBytes([]byte(d))
			}
			emit("tokenize", d, encBytes(tokLine(r)))
		default:
			d := tokDelims[r.Intn(len(tokDelims))]
			if d != "awk" {
				d = "d:" + encBytes([]byte(d))
			}
			k := 1 + r.Intn(3)
			rs := []string{}
			for j := 0; j < k; j++ {
				var x string
				for {
					x = tokRange(r)
					if x != "" && r.Intn(10) > 0 {
						// keep most nth expressions well-formed
						s := x
						if _, ok := fzf.ParseRange(&s); ok {
							break
						}
					} else if x != "" {
						break
					}
				}
				rs = append(rs, x)
			}
			emit("transform", d, encBytes(tokLine(r)), encBytes([]byte(strings.Join(rs, ","))))
		}
	}
}

func init() { register("tok", &area{gen: tokGen, eval: tokEval}) }
