package main

// `harness unicode`: dumps the Go runtime's unicode facts that the Lean driver needs as an
// oracle (run-length encoded over all code points):  lo hi class lowerDelta isSpace
// class = algo's charClassOfNonAscii for the rune (meaningful for runes > 127 only).

import (
	"bufio"
	"fmt"
	"os"
	"unicode"

	"github.com/junegunn/fzf/src/algo"
)

func dumpUnicode() {
	w := bufio.NewWriter(os.Stdout)
	defer w.Flush()
	type key struct {
		cls, delta int
		space      bool
	}
	var cur key
	lo := -1
	flush := func(hi int) {
		if lo >= 0 {
			fmt.Fprintf(w, "%d %d %d %d %d\n", lo, hi, cur.cls, cur.delta, b2i(cur.space))
		}
	}
	for r := 0; r <= unicode.MaxRune; r++ {
		cls := 1
		if r > 127 {
			cls = algo.VerifCharClassOf(rune(r))
		}
		k := key{cls, int(unicode.ToLower(rune(r))) - r, unicode.IsSpace(rune(r))}
		if lo < 0 || k != cur {
			flush(r - 1)
			lo, cur = r, k
		}
	}
	flush(unicode.MaxRune)
}
