package main

// Area "http": handleHttpRequest over a pipe with scripted write chunking.
//
//   http req <server key|-> <chunks>  => <status> <getCalled> <body of answer> <delivered|-> <bind|reject|->
//
//   <chunks>    "|"-joined byte strings written one Write each, then the connection is closed
//   <status>    first line of the answer without CRLF, blanks as "_"
//   <delivered> ";"-joined action(arg) texts sent on the action channel as bytes, "-" if nothing was sent
//   <bind>      what parseSingleActionList gives for the same text the model extracts (filled by the eval as
//               a second call is needed: the harness calls it on the trimmed body itself)

import (
	"fmt"
	"math/rand"
	"strconv"
	"strings"

	fzf "github.com/junegunn/fzf/src"
)

func httpSummary(resp string, getCalled bool, delivered []string) string {
	head, body := resp, ""
	if i := strings.Index(resp, "\r\n\r\n"); i >= 0 {
		head, body = resp[:i], resp[i+4:]
	}
	status := strings.ReplaceAll(strings.Split(head, "\r\n")[0], " ", "_")
	del := "-"
	if delivered != nil {
		del = encStr(strings.Join(delivered, ";"))
	}
	return fmt.Sprintf("%s~%d~%s~%s", status, b2i(getCalled), encStr(body), del)
}

func httpSeqEval(a []string) string {
	key := ""
	if a[0] != "-" {
		key = string(decBytes(a[0]))
	}
	reqs := [][][]byte{}
	for _, q := range strings.Split(a[1], "@") {
		reqs = append(reqs, decStrList(q))
	}
	resps, gets, dels := fzf.VerifHttpSession(key, reqs)
	parts := []string{}
	for i := range reqs {
		r1, g1, d1 := fzf.VerifHandleHttpRequest(key, reqs[i])
		parts = append(parts, httpSummary(resps[i], gets[i], dels[i])+"="+httpSummary(r1, g1, d1))
	}
	return strings.Join(parts, ";")
}

func httpEval(op string, a []string) string {
	if op == "seq" {
		return httpSeqEval(a)
	}
	if op == "listen" {
		// http listen <address> <key|-> => reject | <host> <port> <local> <started> <loopback>
		key := ""
		if a[1] != "-" {
			key = string(decBytes(a[1]))
		}
		host, port, local, perr, started, loopback := fzf.VerifListenStart(string(decBytes(a[0])), key)
		if perr {
			return "reject"
		}
		if host == "" {
			host = "-"
		}
		return fmt.Sprintf("%s %d %d %d %d", encStr(host), port, b2i(local), b2i(started), b2i(loopback))
	}
	if op != "req" {
		panic("bad op")
	}
	key := ""
	if a[0] != "-" {
		key = string(decBytes(a[0]))
	}
	chunks := decStrList(a[1])
	resp, getCalled, delivered := fzf.VerifHandleHttpRequest(key, chunks)
	// split the answer
	head, body := resp, ""
	if i := strings.Index(resp, "\r\n\r\n"); i >= 0 {
		head, body = resp[:i], resp[i+4:]
	}
	lines := strings.Split(head, "\r\n")
	status := strings.ReplaceAll(lines[0], " ", "_")
	wellFormed := 1
	if !strings.HasPrefix(lines[0], "HTTP/1.1 ") {
		wellFormed = 0
	}
	for _, l := range lines[1:] {
		if strings.HasPrefix(l, "Content-Length: ") {
			n, err := strconv.Atoi(l[len("Content-Length: "):])
			if err != nil || n != len(body) {
				wellFormed = 0
			}
		}
	}
	if len(lines) == 1 && body != "" {
		wellFormed = 0
	}
	del := "-"
	if delivered != nil {
		del = encStr(strings.Join(delivered, ";"))
	}
	// what --bind would do with the action text the generator put into the body
	bind := "-"
	if len(a) > 2 && a[2] != "!" {
		bind = httpBindEval([]string{a[2]})
	}
	return fmt.Sprintf("%s %d %d %s %s %s", status, b2i(getCalled), wellFormed, encStr(body), del, bind)
}

// `http bind <text>` => reject | <actions as bytes>
func httpBindEval(a []string) string {
	acts, err := fzf.VerifParseSingleActionList(string(decBytes(a[0])))
	if err != nil {
		return "reject"
	}
	return encStr(strings.Join(acts, ";"))
}

func chunkUp(r *rand.Rand, data []byte) [][]byte {
	if len(data) == 0 {
		return nil
	}
	switch r.Intn(4) {
	case 0:
		return [][]byte{data}
	case 1: // byte by byte (short requests only)
		if len(data) < 200 {
			out := [][]byte{}
			for _, b := range data {
				out = append(out, []byte{b})
			}
			return out
		}
	}
	out := [][]byte{}
	for len(data) > 0 {
		n := 1 + r.Intn(len(data))
		if r.Intn(2) == 0 && n > 8 {
			n = 1 + r.Intn(8)
		}
		out = append(out, data[:n])
		data = data[n:]
	}
	return out
}

// genRequest: one request (as bytes) for a server with the given key, and the action text a
// well-formed POST intends ("!" if none).
func genRequest(r *rand.Rand, bodies []string, key string) ([]byte, string) {
	var req strings.Builder
	kind := r.Intn(10)
	switch {
	case kind < 3: // GET
		req.WriteString([]string{"GET / HTTP/1.1", "GET /?limit=5 HTTP/1.1", "GET /?limit=3&offset=2 HTTP/1.1", "GET /x HTTP/1.1", "GET /?LIMIT=1 HTTP/1.1", "get / HTTP/1.1", "GET /?limit=abc&offset=7 HTTP",
			"GET /?limit HTTP/1.1", "GET /?limit=3&offset HTTP/1.1", "GET /?x=1&limit&y=2 HTTP/1.1", "GET /?= HTTP/1.1", "GET /?&&= HTTP/1.1", "GET /?offset=-1&limit=0 HTTP/1.1"}[r.Intn(13)])
		req.WriteString("\r\n")
	case kind < 8: // POST
		req.WriteString([]string{"POST / HTTP/1.1", "POST / HTTP/1.1", "POST /x HTTP/1.1", "POST / HTTP"}[r.Intn(4)])
		req.WriteString("\r\n")
	default:
		req.WriteString([]string{"PUT / HTTP/1.1\r\n", "", "\r\n", "POST", "GET", "\x00\xff\r\n", "HELLO\n"}[r.Intn(7)])
	}
	body := bodies[r.Intn(len(bodies))]
	hdrs := []string{}
	intended := "!"
	if kind >= 3 && kind < 8 && r.Intn(8) > 0 {
		cl := len(body)
		switch r.Intn(10) {
		case 0:
			cl++
		case 1:
			if cl > 0 {
				cl--
			}
		case 2:
			cl = 1048576 + r.Intn(2)
		case 3:
			cl = 0
		}
		if cl >= 1 && cl <= len(body) {
			intended = encStr(strings.Trim(body[:cl], "\r\n"))
		}
		name := []string{"Content-Length", "content-length", "CONTENT-LENGTH"}[r.Intn(3)]
		hdrs = append(hdrs, fmt.Sprintf("%s:%s%d", name, []string{" ", "", "  "}[r.Intn(3)], cl))
		if r.Intn(15) == 0 {
			hdrs[len(hdrs)-1] = name + ": abc"
		}
	}
	if key != "-" || r.Intn(5) == 0 {
		k := "secret"
		if key != "-" {
			k = string(decBytes(key))
		}
		switch r.Intn(6) {
		case 0:
			k = k + "x"
		case 1:
			k = k[:len(k)-1]
		case 2:
			k = strings.ToUpper(k)
		case 3:
			k = ""
		}
		if r.Intn(6) > 0 {
			hdrs = append(hdrs, []string{"X-API-Key", "x-api-key"}[r.Intn(2)]+": "+k)
		}
	}
	if r.Intn(3) == 0 {
		hdrs = append(hdrs, "Host: localhost", "User-Agent: x:y", "Junk")
	}
	r.Shuffle(len(hdrs), func(i, j int) { hdrs[i], hdrs[j] = hdrs[j], hdrs[i] })
	for _, h := range hdrs {
		req.WriteString(h + "\r\n")
	}
	if r.Intn(12) > 0 {
		req.WriteString("\r\n")
	}
	if kind >= 3 {
		req.WriteString(body)
	}
	data := []byte(req.String())
	if r.Intn(15) == 0 && len(data) > 3 { // early close
		data = data[:r.Intn(len(data))]
	}
	if r.Intn(60) == 0 { // very long line
		data = append(data, []byte(strings.Repeat("z", 70000))...)
	}
	return data, intended
}

func httpGen(r *rand.Rand, count int, emit func(op string, args ...string)) {
	bodies := []string{"change-query(foo)", "up+down", "first", "reload(seq 10)", "change-query(a)+toggle-all", "bogus-action", "", "execute(echo x)",
		"put(x)", "abort", "change-query:hello world", "up\r\n", "\r\nup", "select-all+accept", "change-prompt[x> ]",
		// blanks at the edges of the body are part of the action list (only CR / LF are trimmed)
		"change-query:foo  ", " accept", "change-prompt:> ", "change-header:x\t", "up ", "  ", "\tup", "change-query:a \r\n"}
	if genSeed%1000 == 0 || count < 1000 {
		// every form of a --listen address, with and without an API key: a listener without a key is local
		hosts := []string{"", "localhost", "127.0.0.1", "0.0.0.0", "LOCALHOST", "127.0.0.2", "nosuchhost.invalid", " ", "localhost ", "::1", "[::1]", "::"}
		ports := []string{"0", "0", "00", "x", "", "65536", "-1", "99999999999999999999", "0 ", "0x10"}
		for _, h := range hosts {
			for _, p := range ports {
				for _, k := range []string{"-", encStr("k")} {
					emit("listen", encStr(h+":"+p), k)
				}
			}
		}
		for _, p := range ports {
			emit("listen", encStr(p), "-")
		}
		emit("listen", encStr(""), "-")
		emit("listen", encStr("a:b:0"), "-")
	}
	for i := 0; i < count; i++ {
		key := "-"
		if r.Intn(2) == 0 {
			key = encStr([]string{"secret", "k", "sécret", "a b"}[r.Intn(4)])
		}
		if r.Intn(6) == 0 {
			// several requests against one server: every answer must be what the request gets alone
			reqs := []string{}
			for k := 2 + r.Intn(3); k > 0; k-- {
				data, _ := genRequest(r, bodies, key)
				if len(data) == 0 {
					data = []byte("GET / HTTP/1.1\r\n\r\n")
				}
				reqs = append(reqs, encStrList(chunkUp(r, data)))
			}
			emit("seq", key, strings.Join(reqs, "@"))
			continue
		}
		data, intended := genRequest(r, bodies, key)
		emit("req", key, encStrList(chunkUp(r, data)), intended)
	}
}

func init() {
	register("http", &area{gen: httpGen, eval: func(op string, a []string) string {
		if op == "bind" {
			return httpBindEval(a)
		}
		return httpEval(op, a)
	}})
}
