package main

// Area "ansi": src/ansi.go.
//
//   ansi scan <bytes>                 => <start> <end>            (-1 -1: none)
//   ansi extract <prev|-> <bytes>     => <trimmed> <offsets> <state|->
//   ansi sgr <prev|-> <ops>           => <rendered bytes> <trimmed> <offsets> <state|->
//
//   state   fg.bg.attr.lbg.url   url = "-" or <uri bytes>~<params bytes> (bytes as ":"-joined decimals, "e" if empty)
//   offsets "|"-joined b-e-state, "nil" when extractColor returns no offsets
//   ops     "/"-joined:  t:<text bytes ":"-joined> | fg:<0-15> | bg:<0-15> | fg256:<n> | bg256:<n> | fgrgb:<r>.<g>.<b> |
//           bgrgb:… | on:<1|2|3|4|5|7|9> | off:<22|23|24|25|27|29> | deffg | defbg | reset | reset0 | url:<uri> | nourl |
//           csi:<bytes> (another CSI sequence) | esc:<byte> | so | bs:<byte> (a character followed by backspace)
//           "+" joins SGR parameters into one sequence: fg:1+on:4 ; a trailing "c" on an op uses ':' separators

import (
	"fmt"
	"math/rand"
	"strings"

	fzf "github.com/junegunn/fzf/src"
)

func colonBytes(b []byte) string {
	if len(b) == 0 {
		return "e"
	}
	parts := make([]string, len(b))
	for i, c := range b {
		parts[i] = itoa(int(c))
	}
	return strings.Join(parts, ":")
}

func decColonBytes(s string) []byte {
	if s == "e" {
		return nil
	}
	out := []byte{}
	for _, p := range strings.Split(s, ":") {
		out = append(out, byte(atoi(p)))
	}
	return out
}

func encAnsiState(s *fzf.VerifAnsiState) string {
	if s == nil {
		return "-"
	}
	url := "-"
	if s.HasURL {
		url = colonBytes([]byte(s.URI)) + "~" + colonBytes([]byte(s.Params))
	}
	return fmt.Sprintf("%d.%d.%d.%d.%s", s.Fg, s.Bg, s.Attr, s.Lbg, url)
}

func decAnsiState(s string) *fzf.VerifAnsiState {
	if s == "-" {
		return nil
	}
	f := strings.SplitN(s, ".", 5)
	st := &fzf.VerifAnsiState{Fg: atoi(f[0]), Bg: atoi(f[1]), Attr: atoi(f[2]), Lbg: atoi(f[3])}
	if f[4] != "-" {
		u := strings.Split(f[4], "~")
		st.HasURL, st.URI, st.Params = true, string(decColonBytes(u[0])), string(decColonBytes(u[1]))
	}
	return st
}

func ansiExtract(prev string, data []byte) string {
	trimmed, offsets, state, nonNil := fzf.VerifExtractColor(string(data), decAnsiState(prev))
	os := "nil"
	if nonNil {
		parts := []string{}
		for _, o := range offsets {
			c := o.Color
			parts = append(parts, fmt.Sprintf("%d-%d-%s", o.Begin, o.End, encAnsiState(&c)))
		}
		os = strings.Join(parts, "|")
		if len(parts) == 0 {
			os = "_"
		}
	}
	ans := fmt.Sprintf("%s %s %s", encStr(trimmed), os, encAnsiState(state))
	// the state handed in is kept by the callers (the colour carried from field to field and from line
	// to line): extractColor must leave it as it was
	if !fzf.VerifExtractColorKeepsInput(string(data), decAnsiState(prev)) {
		ans += " input-state-modified"
	}
	return ans
}

func sgrParam(op string) string {
	sep := ";"
	empty := "" // an empty colour-space field after the 2 / 5 (what terminfo's direct-colour entries emit): ignored
	if strings.HasSuffix(op, "c") && !strings.HasPrefix(op, "csi") {
		sep, op = ":", op[:len(op)-1]
	} else if strings.HasSuffix(op, "k") {
		sep, op, empty = ":", op[:len(op)-1], ":"
	}
	kv := strings.SplitN(op, ":", 2)
	switch kv[0] {
	case "fg":
		n := atoi(kv[1])
		if n < 8 {
			return itoa(30 + n)
		}
		return itoa(90 + n - 8)
	case "bg":
		n := atoi(kv[1])
		if n < 8 {
			return itoa(40 + n)
		}
		return itoa(100 + n - 8)
	case "fg256":
		return "38" + sep + "5" + sep + kv[1]
	case "bg256":
		return "48" + sep + "5" + sep + kv[1]
	case "fgrgb":
		return "38" + sep + "2" + empty + sep + strings.ReplaceAll(kv[1], ".", sep)
	case "bgrgb":
		return "48" + sep + "2" + empty + sep + strings.ReplaceAll(kv[1], ".", sep)
	case "on", "off":
		return kv[1]
	case "deffg":
		return "39"
	case "defbg":
		return "49"
	case "reset0":
		return "0"
	case "reset":
		return ""
	}
	panic("bad sgr op " + op)
}

func renderOps(ops string) []byte {
	var out []byte
	if ops == "_" {
		return out
	}
	for _, op := range strings.Split(ops, "/") {
		kv := strings.SplitN(op, ":", 2)
		switch kv[0] {
		case "t":
			out = append(out, decColonBytes(kv[1])...)
		case "url":
			out = append(out, []byte("\x1b]8;;")...)
			out = append(out, decColonBytes(kv[1])...)
			out = append(out, []byte("\x1b\\")...)
		case "urlb":
			out = append(out, []byte("\x1b]8;id=1;")...)
			out = append(out, decColonBytes(kv[1])...)
			out = append(out, 7)
		case "nourl":
			out = append(out, []byte("\x1b]8;;\x1b\\")...)
		case "csi":
			out = append(out, 0x1b, '[')
			out = append(out, decColonBytes(kv[1])...)
		case "esc":
			out = append(out, 0x1b, byte(atoi(kv[1])))
		case "so":
			out = append(out, 0x0e)
		case "bs":
			out = append(out, byte(atoi(kv[1])), 8)
		default:
			params := []string{}
			for _, sub := range strings.Split(op, "+") {
				params = append(params, sgrParam(sub))
			}
			out = append(out, []byte("\x1b["+strings.Join(params, ";")+"m")...)
		}
	}
	return out
}

func ansiEval(op string, a []string) string {
	switch op {
	case "scan":
		s, e := fzf.VerifNextAnsiEscapeSequence(string(decBytes(a[0])))
		return fmt.Sprintf("%d %d", s, e)
	case "extract":
		return ansiExtract(a[0], decBytes(a[1]))
	case "sgr":
		data := renderOps(a[1])
		return encBytes(data) + " " + ansiExtract(a[0], data)
	}
	panic("bad op")
}

func genAnsiState(r *rand.Rand) string {
	if r.Intn(2) == 0 {
		return "-"
	}
	st := fzf.VerifAnsiState{Fg: -1, Bg: -1, Lbg: -1}
	if r.Intn(2) == 0 {
		st.Fg = r.Intn(16)
	}
	if r.Intn(3) == 0 {
		st.Bg = r.Intn(256)
	}
	if r.Intn(3) == 0 {
		st.Attr = []int{1, 2, 4, 8, 16, 64, 128, 5}[r.Intn(8)]
	}
	if r.Intn(6) == 0 {
		st.HasURL, st.URI = true, "http://x"
	}
	if st.Fg == -1 && st.Bg == -1 && st.Attr == 0 && !st.HasURL {
		st.Fg = 2
	}
	return encAnsiState(&st)
}

func ansiGen(r *rand.Rand, count int, emit func(op string, args ...string)) {
	frag := []string{"\x1b", "[", "]", "(", ")", "\\", "0", "1", "8", "38", ";", ":", "?", "m", "K", "A", "@", "\x07", "\x08", "\x0e", "\x0f",
		"\n", "a", "b", " ", "é", "日", "\xff", "\xc3", "5", "2", "0K", "\x1b]8;;", "\x1b[", "\x1b\\", "~", "\x7f", "\x1b]0;t\x07"}
	texts := []string{"a", "bc", " ", "é", "日本", "x/y", "1", "-", "Foo"}
	for i := 0; i < count; i++ {
		switch r.Intn(10) {
		case 0, 1, 2, 3:
			var sb strings.Builder
			n := r.Intn(10)
			for k := 0; k < n; k++ {
				sb.WriteString(frag[r.Intn(len(frag))])
			}
			if r.Intn(3) == 0 {
				emit("scan", encStr(sb.String()))
			} else {
				emit("extract", genAnsiState(r), encStr(sb.String()))
			}
		default:
			ops := []string{}
			n := 1 + r.Intn(8)
			for k := 0; k < n; k++ {
				switch r.Intn(16) {
				case 0, 1, 2, 3, 4:
					ops = append(ops, "t:"+colonBytes([]byte(texts[r.Intn(len(texts))])))
				case 5:
					ops = append(ops, fmt.Sprintf("fg:%d", r.Intn(16)))
				case 6:
					ops = append(ops, fmt.Sprintf("bg:%d", r.Intn(16)))
				case 7:
					x := fmt.Sprintf("%s:%d", []string{"fg256", "bg256"}[r.Intn(2)], r.Intn(256))
					if r.Intn(3) == 0 {
						x += "c"
					}
					ops = append(ops, x)
				case 8:
					x := fmt.Sprintf("%s:%d.%d.%d", []string{"fgrgb", "bgrgb"}[r.Intn(2)], r.Intn(256), r.Intn(256), r.Intn(256))
					switch r.Intn(4) {
					case 0:
						x += "c"
					case 1:
						x += "k"
					}
					ops = append(ops, x)
				case 9:
					ops = append(ops, fmt.Sprintf("on:%d", []int{1, 2, 3, 4, 5, 7, 9}[r.Intn(7)]))
				case 10:
					ops = append(ops, fmt.Sprintf("off:%d", []int{22, 23, 24, 25, 27, 29}[r.Intn(6)]))
				case 11:
					ops = append(ops, []string{"deffg", "defbg", "reset", "reset0"}[r.Intn(4)])
				case 12:
					// several parameters in one sequence
					ops = append(ops, fmt.Sprintf("fg:%d+on:%d+bg256:%d", r.Intn(16), []int{1, 4, 7}[r.Intn(3)], r.Intn(256)))
				case 13:
					ops = append(ops, []string{"url:" + colonBytes([]byte("http://a/b?c=d")), "nourl", "urlb:" + colonBytes([]byte("file:///x"))}[r.Intn(3)])
				case 14:
					ops = append(ops, []string{"csi:" + colonBytes([]byte("2J")), "csi:" + colonBytes([]byte("0K")), "csi:" + colonBytes([]byte("?25l")), "csi:" + colonBytes([]byte("1;2H"))}[r.Intn(4)])
				default:
					ops = append(ops, []string{"esc:61", "so", "bs:120", "esc:55"}[r.Intn(4)])
				}
			}
			emit("sgr", genAnsiState(r), strings.Join(ops, "/"))
		}
	}
}

func init() { register("ansi", &area{gen: ansiGen, eval: ansiEval}) }
