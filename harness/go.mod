module verifharness

go 1.20

require github.com/junegunn/fzf v0.0.0

require (
	github.com/charlievieth/fastwalk v1.0.10 // indirect
	github.com/junegunn/go-shellwords v0.0.0-20250127100254-2aa3b3277741 // indirect
	github.com/mattn/go-isatty v0.0.20 // indirect
	github.com/rivo/uniseg v0.4.7 // indirect
	golang.org/x/sys v0.30.0 // indirect
	golang.org/x/term v0.29.0 // indirect
)

replace github.com/junegunn/fzf => /repo
